------------------------------ MODULE SpecExec ------------------------------
(***************************************************************************)
(* C13 — speculative execution.                                            *)
(*                                                                         *)
(* PropOK(M, evs) is the property-level judge: a pure predicate over the   *)
(* observable record of one call (fibers started / ended, the return).     *)
(* It is used (1) as an invariant of the implementation-shaped machine     *)
(* below, so TLC proves the design satisfies it for every scenario and     *)
(* every tie order, and (2) verbatim by the trace judge on records of the  *)
(* real `speculative_execution::execute` under a paused clock.             *)
(*                                                                         *)
(* Record events:  [k |-> "S", i, t, spec]   fiber i started at time t     *)
(*                 [k |-> "E", i, t, o]      fiber i finished, outcome o   *)
(*                 [k |-> "R", t, r, i]      the call returned r (of fiber i; *)
(*                                           r = "Empty": EmptyPlan error) *)
(*                 [k |-> "H"]               the call never returned       *)
(* Outcomes: "Ok", "Def" (definitive error), "Ign" (ignorable error),      *)
(*           "Exh" (plan exhausted: the fiber had no target left).         *)
(***************************************************************************)
EXTENDS SpecExecProp, TLC

(************************ implementation-shaped machine ********************)
CONSTANTS MaxM, Intervals, Durs, Outs

VARIABLES M, I, D, O,        \* the scenario (chosen in Init)
          now, started, running, endAt, retries,
          timerAt,           \* instant the sleep fires; -1 encoded as NoTimer
          tasksTerm,         \* FuturesUnordered yielded None while empty (select! then skips the branch)
          lastErr, evs, ret

NoTimer == 1000000
vars == <<M, I, D, O, now, started, running, endAt, retries, timerAt, tasksTerm, lastErr, evs, ret>>
scen == <<M, I, D, O>>

Init ==
  /\ M \in 0..MaxM /\ I \in Intervals
  /\ D \in [0..M -> Durs] /\ O \in [0..M -> Outs]
  /\ now = 0 /\ started = 1 /\ running = {0} /\ endAt = [i \in 0..M |-> IF i = 0 THEN D[0] ELSE 0]
  /\ retries = M /\ timerAt = I /\ tasksTerm = FALSE /\ lastErr = 0    \* 0 = none, else fiber index + 1
  /\ evs = <<[k |-> "S", i |-> 0, t |-> 0, spec |-> 0]>> /\ ret = FALSE

Returned(r, i) == /\ evs' = Append(Append(evs, [k |-> "E", i |-> i, t |-> now, o |-> O[i]]), [k |-> "R", t |-> now, r |-> r, i |-> i])
                  /\ ret' = TRUE

\* the `sleep` branch of select!
TimerFire ==
  /\ ~ret /\ timerAt = now
  /\ IF retries > 0
     THEN /\ running' = running \cup {started}
          /\ endAt' = [endAt EXCEPT ![started] = now + D[started]]
          /\ evs' = Append(evs, [k |-> "S", i |-> started, t |-> now, spec |-> 1])
          /\ started' = started + 1 /\ retries' = retries - 1
          /\ timerAt' = now + I /\ tasksTerm' = FALSE
     ELSE /\ timerAt' = NoTimer          \* not re-armed: the fused sleep is terminated
          /\ UNCHANGED <<running, endAt, evs, started, retries, tasksTerm>>
  /\ UNCHANGED <<scen, now, lastErr, ret>>

\* the `async_tasks.select_next_some()` branch
FiberDone(i) ==
  /\ ~ret /\ i \in running /\ endAt[i] <= now
  /\ running' = running \ {i}
  /\ IF O[i] \in {"Ok", "Def"}
     THEN Returned(O[i], i) /\ UNCHANGED <<retries, lastErr>>
     ELSE LET nr == IF O[i] = "Exh" THEN 0 ELSE retries
              nl == IF O[i] = "Ign" THEN i + 1 ELSE lastErr IN
          /\ retries' = nr /\ lastErr' = nl
          /\ IF running' = {} /\ nr = 0
             THEN IF nl = 0 THEN Returned("Empty", i) ELSE
                  /\ evs' = Append(Append(evs, [k |-> "E", i |-> i, t |-> now, o |-> O[i]]),
                                   [k |-> "R", t |-> now, r |-> "Ign", i |-> nl - 1])
                  /\ ret' = TRUE
             ELSE /\ evs' = Append(evs, [k |-> "E", i |-> i, t |-> now, o |-> O[i]]) /\ UNCHANGED ret
  /\ UNCHANGED <<scen, now, started, endAt, timerAt, tasksTerm>>

\* nothing is ready now: virtual time jumps to the next timer / completion
NowEnabled == timerAt = now \/ \E i \in running : endAt[i] <= now
NextTimes == (IF timerAt # NoTimer THEN {timerAt} ELSE {}) \cup {endAt[i] : i \in running}
Advance ==
  /\ ~ret /\ ~NowEnabled /\ NextTimes # {}
  /\ now' = CHOOSE t \in NextTimes : \A u \in NextTimes : t <= u
  /\ tasksTerm' = (tasksTerm \/ running = {})
  /\ UNCHANGED <<scen, started, running, endAt, retries, timerAt, lastErr, evs, ret>>

\* waiting on nothing: every branch of select! is terminated / nothing can ever wake the call
Hang ==
  /\ ~ret /\ ~NowEnabled /\ NextTimes = {}
  /\ evs' = Append(evs, [k |-> "H"]) /\ ret' = TRUE
  /\ UNCHANGED <<scen, now, started, running, endAt, retries, timerAt, tasksTerm, lastErr>>

Next == TimerFire \/ (\E i \in 0..MaxM : FiberDone(i)) \/ Advance \/ Hang
Spec == Init /\ [][Next]_vars /\ WF_vars(Next)

(******************************** checked **********************************)
DesignOK == ret => PropOK(M, evs)
AlwaysReturns == <>ret
\* select! would panic if both branches were terminated while the loop goes on
NoSelectPanic == ~(~ret /\ timerAt = NoTimer /\ running = {})
=============================================================================
