----------------------------- MODULE MC_Routing -----------------------------
(***************************************************************************)
(* Scenario generator for C12: cluster layouts (1..6 nodes, 1..3 DCs,      *)
(* racks, 1 or 2 vnodes per node), shard counts (plain nodes, 1..8 shards, *)
(* both ignore-msb settings), replication strategies, load-balancing       *)
(* preferences, down nodes, pool sizes, tablet maps.  The tokens of the    *)
(* keys are computed here by Murmur3.tla (KEYTOK, printed once).           *)
(***************************************************************************)
EXTENDS Routing, Murmur3, TLC, Json
CONSTANTS Full
Keys == {0, 1, 2, 7, 42, 1000, 65536, 123456789}
PkBytes(pk) == <<pk \div 16777216, (pk \div 65536) % 256, (pk \div 256) % 256, pk % 256>>
ASSUME PrintT(<<"KEYTOK", ToJson([pk \in Keys |-> Token(PkBytes(pk))])>>)

A(dc, rack) == <<dc, rack>>
Layouts == << <<A("dc1", "r1")>>,
              <<A("dc1", "r1"), A("dc1", "r1")>>,
              <<A("dc1", "r1"), A("dc1", "r2"), A("dc1", "r1")>>,
              <<A("dc1", "r1"), A("dc1", "r1"), A("dc2", "r1")>>,
              <<A("dc1", "r1"), A("dc1", "r2"), A("dc2", "r1"), A("dc2", "r1")>>,
              <<A("dc1", "r1"), A("dc2", "r1"), A("dc3", "r1")>>,
              <<A("dc1", "r1"), A("dc1", "r1"), A("dc1", "r2"), A("dc2", "r1"), A("dc2", "r1"), A("dc3", "r1")>> >>
\* shard patterns: <<shards, msb>> per node index (cyclic)
ShardPats == << <<<<0, 0>>>>, <<<<4, 12>>>>, <<<<3, 12>>, <<0, 0>>, <<8, 0>>>>, <<<<1, 12>>, <<5, 12>>>>, <<<<2, 0>>, <<7, 12>>, <<0, 0>>>> >>
Strats == << [class |-> "simple", rf |-> 1], [class |-> "simple", rf |-> 2], [class |-> "simple", rf |-> 3],
             [class |-> "nts", rf |-> [dc1 |-> 1]], [class |-> "nts", rf |-> [dc1 |-> 2, dc2 |-> 1]],
             [class |-> "nts", rf |-> [dc1 |-> 1, dc2 |-> 1, dc3 |-> 1]], [class |-> "nts", rf |-> [dc2 |-> 1]] >>
\* where: the location preference is given to the DefaultPolicy ("policy") or to the session, the policy holding none ("session")
Policies == << [prefer_dc |-> "", prefer_rack |-> "", failover |-> 0, where |-> "policy"], [prefer_dc |-> "dc1", prefer_rack |-> "", failover |-> 0, where |-> "policy"],
               [prefer_dc |-> "dc1", prefer_rack |-> "r1", failover |-> 1, where |-> "policy"], [prefer_dc |-> "dc2", prefer_rack |-> "", failover |-> 1, where |-> "policy"],
               [prefer_dc |-> "dc1", prefer_rack |-> "", failover |-> 1, where |-> "session"], [prefer_dc |-> "dc2", prefer_rack |-> "r1", failover |-> 0, where |-> "session"] >>
Pools == << [kind |-> "per_shard", n |-> 1], [kind |-> "per_host", n |-> 1], [kind |-> "per_host", n |-> 2] >>
Nodes(li, vn, sp, down) ==
  LET L == Layouts[li]  P == ShardPats[sp] IN
  [i \in 1..Len(L) |-> [dc |-> L[i][1], rack |-> L[i][2],
                        pos |-> IF vn = 2 THEN <<2 * i, 2 * i + 1>> ELSE <<2 * i>>,
                        shards |-> P[((i - 1) % Len(P)) + 1][1], msb |-> P[((i - 1) % Len(P)) + 1][2],
                        up |-> IF i = down /\ Len(L) > 1 THEN 0 ELSE 1]]
\* tablets over a sharded 3-node layout: three tablets bounded by grid points
MinTok == <<0, 0, 0, 0, 0, 0, 0, 128>>
MaxTok == <<255, 255, 255, 255, 255, 255, 255, 127>>
Tablets3 == << [first |-> MinTok, last |-> Grid(5), replicas |-> << <<0, 1>>, <<1, 0>> >>],
               [first |-> Grid(5), last |-> Grid(11), replicas |-> << <<2, 3>> >>],
               [first |-> Grid(11), last |-> MaxTok, replicas |-> << <<1, 2>>, <<0, 0>> >>] >>
\* keys of a CDC log table: 16-byte stream ids; the CDC partitioner's token is their first 8 bytes read as a big-endian long
CdcBlob(b, i) == <<b, 17 * i, 3, 200, 0, 255, i, 1>> \o <<0, 0, 0, 0, 0, 0, 0, i>>
CdcKeys == [i \in 1..8 |-> LET bl == CdcBlob(<<0, 21, 63, 85, 127, 128, 160, 225>>[i], i) IN [pk |-> i, blob |-> bl, token |-> CdcToken(bl)]]
TabletsUnknown == << [first |-> MinTok, last |-> Grid(5), replicas |-> << <<99, 0>>, <<0, 1>>, <<1, 3>> >>],
                     [first |-> Grid(5), last |-> Grid(11), replicas |-> << <<2, 3>>, <<99, 1>>, <<0, 2>> >>],
                     [first |-> Grid(11), last |-> MaxTok, replicas |-> << <<99, 2>>, <<99, 3>>, <<1, 1>> >>] >>
VARIABLE c
Pick(li, vn, sp, st, po, dn, pl) == (li + 2 * vn + 3 * sp + 5 * st + 7 * po + 11 * dn + 13 * pl) % 24 = 0
Init ==
  \/ \E li \in 1..Len(Layouts) : \E vn \in 1..2 : \E sp \in 1..Len(ShardPats) : \E st \in 1..Len(Strats) : \E po \in 1..Len(Policies) :
       \E dn \in 0..2 : \E pl \in 1..Len(Pools) :
         /\ Full \/ Pick(li, vn, sp, st, po, dn, pl)
         /\ c = [nodes |-> Nodes(li, vn, sp, dn), strategy |-> Strats[st], pool |-> Pools[pl], policy |-> Policies[po], tablets |-> "none", rounds |-> 1,
                 nat |-> 0, initial_tablets |-> 1, refresh |-> 0]
  \* a NAT rewrites the source ports: shard-aware-port connections land on another shard than the driver asked for
  \/ \E li \in {2, 3, 5} : \E sp \in {2, 4} : \E st \in {1, 2, 5} : \E nat \in {1, 3} :
         c = [nodes |-> Nodes(li, 1, sp, 0), strategy |-> Strats[st], pool |-> Pools[1], policy |-> Policies[1], tablets |-> "none", rounds |-> 1,
              nat |-> nat, initial_tablets |-> 1, refresh |-> 0]
  \* a node comes back reconfigured: same shard count, another ignore-msb (the session must adopt the new sharder)
  \/ \E li \in {2, 3} : \E st \in {1, 2} : \E n \in {0, 1} : \E m \in {0, 3} :
         c = [nodes |-> Nodes(li, 1, 2, 0), strategy |-> Strats[st], pool |-> Pools[1], policy |-> Policies[1], tablets |-> "none", rounds |-> 1,
              nat |-> 0, initial_tablets |-> 1, refresh |-> 0, msb_change |-> [node |-> n, msb |-> m]]
  \* a CDC log table (other partitioner), with and without every node failing its first PREPARE (the statement is then prepared in a second round)
  \/ \E li \in {3, 5} : \E st \in {1, 2, 5} : \E sp \in {1, 2} : \E pf \in {0, 1} :
         c = [nodes |-> Nodes(li, 1, sp, 0), strategy |-> Strats[st], pool |-> Pools[1], policy |-> Policies[1], tablets |-> "none", rounds |-> 1,
              nat |-> 0, initial_tablets |-> 1, refresh |-> 0, cdc |-> 1, prepare_fail |-> pf, keys |-> CdcKeys]
  \* a tablet whose replica list names a host the session does not know yet (index 99) before known replicas on other shards
  \/ \E vn \in 1..2 : \E po \in {1, 2} :
         c = [nodes |-> Nodes(3, vn, 2, 0), strategy |-> Strats[4], pool |-> Pools[1], policy |-> Policies[po], tablets |-> TabletsUnknown, rounds |-> 2,
              nat |-> 0, initial_tablets |-> 1, refresh |-> 0]
  \* tablets: ScyllaDB reports initial_tablets = 0 for `tablets = {'enabled': true}`; what was learned must survive a metadata refresh
  \/ \E vn \in 1..2 : \E dn \in {0, 3} : \E po \in {1, 2} : \E it \in {0, 1} : \E rf \in {0, 1} :
         c = [nodes |-> Nodes(3, vn, 2, dn), strategy |-> Strats[4], pool |-> Pools[1], policy |-> Policies[po], tablets |-> Tablets3, rounds |-> 2,
              nat |-> 0, initial_tablets |-> it, refresh |-> rf]
Next == UNCHANGED c
Spec == Init /\ [][Next]_c
Emit == PrintT(<<"SCEN", ToJson(c)>>)
=============================================================================
