----------------------------- MODULE MC_DupFields -----------------------------
(* Malformed metadata for the derived mappings (C08, typed column values): a UDT definition / a row's column list naming a  *)
(* field TWICE (neither the type decoder nor the custom-type parser refuses that).  For every struct of the ByName family,   *)
(* both modes: every field of the declared layout repeated at every position, and the same with one field left out.         *)
(* The judge (Trace_DupFields) only asks that type_check / deserialize / serialize end with a value or an error.            *)
EXTENDS MC_ByName
DupDBs(s) == LET b == Base(s) k == Len(b) IN
  {Ins(b, p, b[i]) : i \in 1..k, p \in 0..k}
  \cup UNION {{Ins(q, p, q[i]) : i \in 1..Len(q), p \in 0..Len(q)} : q \in {Pick(b, (1..k) \ {j}, 1) : j \in 1..k}}
VARIABLE dc
DInit == /\ c = 0           \* (MC_ByName's own variable, unused here)
         /\ \E s \in Structs : \E m \in Modes(s) : \E db \in DupDBs(s) : \E mask \in {{}, {1}} :
              dc = [s |-> s, mode |-> m, db |-> db, mask |-> mask]
DNext == UNCHANGED <<c, dc>>
DSpec == DInit /\ [][DNext]_<<c, dc>>
DWV == [i \in 1..Len(dc.db) |-> IF i \in dc.mask THEN [k |-> "null"] ELSE ValT(NameNum(dc.db[i].n), dc.db[i].t.n, 1)]
DVals == LET fs == Struct(dc.s, dc.mode, "ser").fs  v(j) == ValT(NameNum(fs[j].r), fs[j].t, 1) IN [a |-> v(1), b |-> v(2), c |-> v(3), d |-> v(4)]
DEmit == PrintT(<<"DUP", ToJson([s |-> dc.s, mode |-> dc.mode, db |-> dc.db, vals |-> DVals, wvals |-> DWV, wire |-> WireOf(dc.db, DWV)])>>)
=============================================================================
