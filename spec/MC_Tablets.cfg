SPECIFICATION Spec
CONSTANTS
  NT = 3
  Nodes = {1, 2, 3}
  DCs = {"dc1", "dc2", "dc3"}
  RepLists <- MCRepLists
  InitKnown = {1, 2}
  InitDc <- MCInitDc
  MaintOps <- MCMaintOps
  MaxOps = 4
VIEW View
INVARIANTS SortedDisjoint ListIsAlive AliveDisjoint LookupAgrees NoStaleNodes
CHECK_DEADLOCK FALSE
