----------------------------- MODULE MC_Rollback -----------------------------
(* Histories for the bound-values rollback check (C17): every sequence of up   *)
(* to MaxLen operations over successful adds and every failure kind, plus the  *)
(* histories around the 65535-value limit.                                     *)
EXTENDS Naturals, Sequences, TLC, Json
CONSTANTS MaxLen
I(n, m) == [neg |-> n, mag |-> m]
NT(n) == [k |-> "native", n |-> n]
AddInt == [op |-> "add", t |-> NT("int"), v |-> [k |-> "i", i |-> I(1, <<5>>)]]
AddText == [op |-> "add", t |-> NT("text"), v |-> [k |-> "s", b |-> <<104, 105>>]]
AddList == [op |-> "add", t |-> [k |-> "list", e |-> NT("int")], v |-> [k |-> "seq", vs |-> <<[k |-> "i", i |-> I(0, <<1>>)], [k |-> "i", i |-> I(0, <<2>>)]>>]]
AddNull == [op |-> "add", t |-> NT("bigint"), v |-> [k |-> "null"]]
Mismatch1 == [op |-> "mismatch", t |-> NT("text")]
Mismatch2 == [op |-> "mismatch", t |-> [k |-> "list", e |-> NT("int")]]
Nested == [op |-> "nested_fail", t |-> [k |-> "list", e |-> NT("int")]]
TooLarge == [op |-> "toolarge"]
Late == [op |-> "late_typeck"]      \* a refusal that comes after bytes of the value were already written
Ops == {AddInt, AddText, AddList, AddNull, Mismatch1, Mismatch2, Nested, TooLarge, Late}
Fails == {Mismatch1, Mismatch2, Nested, TooLarge, Late}
VARIABLE h
Init == \/ \E n \in 1..MaxLen : \E s \in [1..n -> Ops] : (\E i \in 1..n : s[i] \in Fails) /\ h = [ops |-> s]
        \/ \E f \in Fails : h = [ops |-> <<AddInt, [op |-> "fill", n |-> 65533], f, AddText, [op |-> "toomany"], f, [op |-> "toomany"]>>]
        \/ h = [ops |-> <<[op |-> "fill", n |-> 65535], [op |-> "toomany"], Mismatch1, Nested, TooLarge>>]
Next == UNCHANGED h
Spec == Init /\ [][Next]_h
Emit == PrintT(<<"HIST", ToJson(h)>>)
=============================================================================
