-------------------------- MODULE Trace_TabletsProp --------------------------
(***************************************************************************)
(* Judge for C15.  The harness walks a tree of insert / maintenance        *)
(* histories on the real ClusterState (depth-first; `Pop` returns to the   *)
(* parent) and after every step records the range list of the table and    *)
(* the lookup of every probe position, unrestricted and per datacentre.    *)
(* Verdict-level requirements (TabletsOps):                                *)
(*   - the range list is sorted, pairwise disjoint and is exactly the set  *)
(*     of live tablets (maintenance may discard: the discarded set is      *)
(*     bound from the observation);                                        *)
(*   - a payload is accepted iff first < last;                             *)
(*   - every lookup answers the latest learnt tablet covering the position *)
(*     if it is alive, else nothing; the replicas are those of the payload *)
(*     that are resolvable;                                                *)
(*   - the per-datacentre answer is the restriction of the full answer, by  *)
(*     the datacentre each replica node is in at the time of the lookup.   *)
(* Drift-level (printed, never rejected): the Node objects of an answer    *)
(* report the node's current datacentre; maintenance discards exactly the  *)
(* tablets with a removed or still-unknown replica.                        *)
(***************************************************************************)
EXTENDS TabletsOps, Json, IOUtils, TLC
Rec == ndJsonDeserialize(IOEnv.TRACE)
VARIABLES l, st, stack
tvars == <<l, st, stack>>

Empty == [learnt |-> << >>, known |-> {}, dc |-> << >>, await |-> FALSE]
TraceInit == l = 1 /\ st = Empty /\ stack = << >> /\ TLCSet(1, 1)
IsEvent(e) == l <= Len(Rec) /\ Rec[l].ev = e /\ l' = l + 1

SeqToSet(s) == {s[i] : i \in 1..Len(s)}

TrInit == /\ IsEvent("Init")
          /\ st' = [learnt |-> << >>, known |-> SeqToSet(Rec[l].known), dc |-> Rec[l].dc, await |-> FALSE]
          /\ stack' = << >>

TrIns == /\ IsEvent("Ins")
         /\ LET e == Rec[l]  valid == e.pf < e.l IN
            /\ e.ok = (IF valid THEN 1 ELSE 0)
            /\ st' = IF valid THEN [st EXCEPT !.learnt = LearnP(st.learnt, st.known, e.f, e.l, e.reps)] ELSE st
         /\ stack' = <<st>> \o stack

TrMaint == /\ IsEvent("Maint")
           /\ st' = [st EXCEPT !.known = SeqToSet(Rec[l].known), !.dc = Rec[l].dc, !.await = TRUE]
           /\ stack' = <<st>> \o stack

DcOf(n) == LET S == {k \in 1..Len(st.dc) : st.dc[k][1] = n} IN IF S = {} THEN "" ELSE st.dc[CHOOSE k \in S : TRUE][2]

NodeShard(reps) == [k \in 1..Len(reps) |-> <<reps[k][1], reps[k][3]>>]

LookOk(L, e) ==
  LET i == AnswerP(L, e.p) IN
  IF i = 0
  THEN /\ e.all.hit = 0
       /\ \A k \in 1..Len(e.dcs) : e.dcs[k].ans.hit = 0
  ELSE /\ e.all.hit = 1
       /\ NodeShard(e.all.reps) = RepsOf(L[i])
       /\ \A k \in 1..Len(e.dcs) :
            /\ e.dcs[k].ans.hit = 1
            /\ e.dcs[k].ans.reps = SelectSeq(e.all.reps, LAMBDA r : r[2] = e.dcs[k].dc)
            \* ... by the datacentre the node is in now (a replica re-created in another datacentre moves with it)
            /\ NodeShard(e.dcs[k].ans.reps) = NodeShard(SelectSeq(e.all.reps, LAMBDA r : DcOf(r[1]) = e.dcs[k].dc))
       \* drift only: answers carry the node's current datacentre
       /\ \A k \in 1..Len(e.all.reps) :
            IF e.all.reps[k][2] = DcOf(e.all.reps[k][1]) THEN TRUE
            ELSE PrintT(<<"DRIFT", "stale Node object in tablet answer", e.all.reps[k]>>)

TrObs == /\ IsEvent("Obs")
         /\ LET e == Rec[l]
                R == {<<e.ranges[k][1], e.ranges[k][2]>> : k \in 1..Len(e.ranges)}
                disc == IF st.await THEN {i \in AliveIdx(st.learnt) : <<st.learnt[i].f, st.learnt[i].l>> \notin R} ELSE {}
                L2 == IF st.await THEN MaintP(st.learnt, disc, st.known) ELSE st.learnt
            IN
            /\ \A a, b \in 1..Len(e.ranges) : a < b => e.ranges[a][2] < e.ranges[b][1]      \* sorted, disjoint
            /\ \A a \in 1..Len(e.ranges) : e.ranges[a][1] <= e.ranges[a][2]
            /\ R = {<<L2[i].f, L2[i].l>> : i \in AliveIdx(L2)}                             \* exactly the live tablets
            /\ \A k \in 1..Len(e.look) : LookOk(L2, e.look[k])
            /\ (st.await => \A i \in AliveIdx(st.learnt) :
                   IF (i \in disc) = MustDrop(st.learnt[i], st.known) THEN TRUE
                   ELSE PrintT(<<"DRIFT", "maintenance discard rule differs", st.learnt[i]>>))
            /\ st' = [st EXCEPT !.learnt = L2, !.await = FALSE]
         /\ UNCHANGED stack

TrPop == /\ IsEvent("Pop") /\ stack # << >> /\ st' = Head(stack) /\ stack' = Tail(stack)
TrReset == /\ IsEvent("Reset") /\ st' = Empty /\ stack' = << >>

TraceNext == TrInit \/ TrIns \/ TrMaint \/ TrObs \/ TrPop \/ TrReset
TraceSpec == TraceInit /\ [][TraceNext]_tvars
Progress == TLCSet(1, IF l > TLCGet(1) THEN l ELSE TLCGet(1))
TraceAccepted == IF TLCGet(1) = Len(Rec) + 1 THEN TRUE
                 ELSE PrintT(<<"REJECTED at line", TLCGet(1)>>) /\ FALSE
=============================================================================
