------------------------------- MODULE ExecGen -------------------------------
(* Scenario generator for the real execution loop: policy x idempotence x      *)
(* consistency x speculative policy x plan of 1..MaxPlan targets, each with a  *)
(* scripted first and second attempt (duration, outcome) or a pool error.      *)
EXTENDS RetryProp, Integers, TLC, Json
CONSTANTS MaxPlan
Reps == { Sym("Ok", 0, 0, FALSE, "-"), Sym("Overloaded", 0, 0, FALSE, "-"), Sym("Unavailable", 1, 0, FALSE, "-"),
          Sym("ReadTimeout", 2, 2, FALSE, "-"), Sym("Syntax", 0, 0, FALSE, "-"), Sym("Bootstrapping", 0, 0, FALSE, "-"),
          Sym("WriteTimeout", 1, 0, FALSE, "BatchLog"), Sym("WriteTimeout", 1, 0, FALSE, "Simple"),
          Sym("Broken", 0, 0, FALSE, "-"), Sym("AllocFail", 0, 0, FALSE, "-") }
Second == { Sym("Ok", 0, 0, FALSE, "-"), Sym("ReadTimeout", 2, 2, FALSE, "-"), Sym("Unavailable", 1, 0, FALSE, "-") }
Target == [pool : {0}, d1 : {0, 3}, e1 : Reps, e2 : Second] \cup [pool : {1}, d1 : {0}, e1 : {Sym("Ok", 0, 0, FALSE, "-")}, e2 : {Sym("Ok", 0, 0, FALSE, "-")}]
VARIABLES sc
Init == sc \in [pol : {"Default", "Downgrading"}, idem : BOOLEAN, cl : {"Quorum", "LocalSerial", "EachQuorum"},
                spec : {-1, 1, 2}, plan : 1..MaxPlan]
Next == UNCHANGED sc
Spec == Init /\ [][Next]_sc
Emit == PrintT(<<"SCEN", ToJson(sc)>>)
ASSUME PrintT(<<"TARGETS", ToJson(Target)>>)
=============================================================================
