---------------------------- MODULE Trace_Murmur3 ----------------------------
(* Judge for C03 records:                                                     *)
(*  kind "hash":  data, chunks (list of chunk lengths fed to write()), token  *)
(*  kind "cdchash": data, token of the CDC partitioner's hasher               *)
(*  kind "pk":    markers, pkidx (marker index of each key component, in key  *)
(*                order), values (bytes per marker), encoded, token, cdc,     *)
(*                token_cached (token through the CachingSession handle)      *)
EXTENDS Murmur3, Json, IOUtils, TLC
Rec == ndJsonDeserialize(IOEnv.TRACE)
VARIABLE l
TraceInit == l = 1 /\ TLCSet(1, 1)
Good(c) ==
  IF c.kind = "hash" THEN c.token = Token(c.data)
  ELSE IF c.kind = "cdchash" THEN c.token = CdcToken(c.data)     \* the CDC hasher, whatever the chunking
  ELSE IF c.kind = "pk" THEN
       LET comps == [i \in 1..Len(c.pkidx) |-> c.values[c.pkidx[i] + 1]]
           enc == EncodePk(comps) IN
       /\ c.encoded = enc
       /\ c.token = (IF c.cdc = 1 THEN CdcToken(enc) ELSE Token(enc))
       /\ c.token_cached = c.token          \* the handle a CachingSession cache hit hands out computes the same token
  ELSE FALSE
TraceNext == l <= Len(Rec) /\ Good(Rec[l]) /\ l' = l + 1
TraceSpec == TraceInit /\ [][TraceNext]_l
Progress == TLCSet(1, IF l > TLCGet(1) THEN l ELSE TLCGet(1))
TraceAccepted == IF TLCGet(1) = Len(Rec) + 1 THEN TRUE
                 ELSE PrintT(<<"REJECTED at line", TLCGet(1)>>) /\ FALSE
=============================================================================
