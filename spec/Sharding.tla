------------------------------- MODULE Sharding -------------------------------
(***************************************************************************)
(* C11 — ScyllaDB's token -> shard mapping and shard-aware source ports.   *)
(*   shard_of(token) = ((token + 2^63) << msb_ignore) * nr_shards >> 64    *)
(*   ports(lo, hi, n, s) = { p in lo..hi : p mod n = s }                   *)
(***************************************************************************)
EXTENDS U64, FiniteSets

ShardOf(tokenBytes, n, msb) == MulHi16(Shl(Bias(tokenBytes), msb), n)

Ports(lo, hi, n, s) == {p \in lo..hi : p % n = s}
ShardOfPort(p, n) == p % n

\* judge of one recorded case (see Trace_Sharding)
ShardCaseOK(c) ==
  /\ c.shard = ShardOf(c.token, c.n, c.msb)
  /\ c.shard < c.n

PortCaseOK(c) ==
  LET P == Ports(c.lo, c.hi, c.n, c.s) IN
  /\ c.port_shard_ok = 1                                   \* shard_of_source_port(p) = p mod n for the probes
  /\ \A i \in 1..Len(c.draws) : c.draws[i] \in P           \* every drawn port is in range and congruent
  /\ (c.draw_none = 1) <=> (P = {})                        \* nothing is produced only when no such port exists
  /\ (P = {}) => c.draws = << >>
  /\ Len(c.iter) = Cardinality(P)                          \* the iterator visits every such port exactly once
  /\ {c.iter[i] : i \in 1..Len(c.iter)} = P
=============================================================================
