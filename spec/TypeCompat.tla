------------------------------ MODULE TypeCompat ------------------------------
(***************************************************************************)
(* C17 — which Rust carrier fits which CQL column type.  Transcribed from  *)
(* docs/source/data-types/*.md ("Database types and their Rust            *)
(* equivalents"; collections.md: set <-> Vec / HashSet / BTreeSet, map <-> *)
(* HashMap / BTreeMap; `[u8; N]` serialization only; Box / Arc / Option    *)
(* transparent) plus three extras found in the code and examined once      *)
(* (harmless supersets, see DESIGN.md): set-like carriers also SERIALIZE   *)
(* into list columns; a Rust tuple shorter than the CQL tuple serializes   *)
(* (the rest is null); the dynamic CqlValue type-checks against any type   *)
(* when reading.  Families are the names used by `vh-cql c17-matrix`.      *)
(***************************************************************************)
EXTENDS Integers, Sequences

NatOf(f) ==
  CASE f = "i8" -> {"tinyint"} [] f = "i16" -> {"smallint"} [] f = "i32" -> {"int"} [] f = "i64" -> {"bigint"}
    [] f = "f32" -> {"float"} [] f = "f64" -> {"double"} [] f = "bool" -> {"boolean"}
    [] f \in {"String", "&str"} -> {"ascii", "text"}
    [] f \in {"Vec<u8>", "[u8;4]"} -> {"blob"}
    [] f = "IpAddr" -> {"inet"} [] f = "Uuid" -> {"uuid"} [] f = "CqlTimeuuid" -> {"timeuuid"}
    [] f \in {"CqlDate", "NaiveDate", "time::Date"} -> {"date"}
    [] f \in {"CqlTime", "NaiveTime", "time::Time"} -> {"time"}
    [] f \in {"CqlTimestamp", "DateTimeUtc", "OffsetDateTime"} -> {"timestamp"}
    [] f = "CqlDuration" -> {"duration"} [] f = "Counter" -> {"counter"}
    [] f \in {"CqlVarint", "BigInt04"} -> {"varint"}
    [] f \in {"CqlDecimal", "BigDecimal04"} -> {"decimal"}
    [] f = "CqlValue::Int" -> {"int"} [] f = "CqlValue::Text" -> {"ascii", "text"}
    [] OTHER -> {}

\* dynamic UDT values: every field of the VALUE must exist in the column's UDT with a fitting type (fields of the
\* type that the value lacks are sent as null)
UdtNames == [x \in {"CqlValue::Udt{a,b}", "CqlValue::Udt{b,a}", "CqlValue::Udt{a}", "CqlValue::Udt{a,x}", "CqlValue::Udt{a,b,x}"} |->
               CASE x = "CqlValue::Udt{a}" -> {"a"} [] x = "CqlValue::Udt{a,x}" -> {"a", "x"} [] x = "CqlValue::Udt{a,b,x}" -> {"a", "b", "x"}
                 [] OTHER -> {"a", "b"}]
UdtFieldT(n) == IF n = "b" THEN {"ascii", "text"} ELSE {"int"}
IsNative(T, names) == T.k = "native" /\ T.n \in names

\* wrappers that do not change the fit
Unwrap(f) == CASE f \in {"Option<i32>", "Box<i32>", "MaybeUnset<i32>", "MaybeEmpty<i32>"} -> "i32"
               [] f = "Arc<String>" -> "String"
               [] OTHER -> f

RECURSIVE Fits(_, _, _)
\* ser = TRUE: binding a value of family f to a column of type T;  ser = FALSE: reading a column of type T into f
Fits(f0, T, ser) ==
  LET f == Unwrap(f0) IN
  CASE NatOf(f) # {} /\ f \notin {"CqlValue::Int", "CqlValue::Text"} -> IsNative(T, NatOf(f))
    [] f \in {"CqlValue::Int", "CqlValue::Text"} -> IF ser THEN IsNative(T, NatOf(f)) ELSE TRUE
    [] f = "Vec<i32>" -> T.k \in {"list", "set", "vector"} /\ Fits("i32", T.e, ser)
    [] f = "Vec<String>" -> T.k \in {"list", "set", "vector"} /\ Fits("String", T.e, ser)
    [] f = "Vec<Vec<i32>>" -> T.k \in {"list", "set", "vector"} /\ Fits("Vec<i32>", T.e, ser)
    [] f = "Vec<(i32,String)>" -> T.k \in {"list", "set", "vector"} /\ Fits("(i32,String)", T.e, ser)
    [] f = "HashSet<i32>" -> T.k \in (IF ser THEN {"set", "list"} ELSE {"set"}) /\ Fits("i32", T.e, ser)
    [] f = "BTreeSet<String>" -> T.k \in (IF ser THEN {"set", "list"} ELSE {"set"}) /\ Fits("String", T.e, ser)
    [] f = "HashMap<String,i32>" -> T.k = "map" /\ Fits("String", T.a, ser) /\ Fits("i32", T.b, ser)
    [] f = "BTreeMap<i32,String>" -> T.k = "map" /\ Fits("i32", T.a, ser) /\ Fits("String", T.b, ser)
    [] f = "HashMap<String,Vec<i32>>" -> T.k = "map" /\ Fits("String", T.a, ser) /\ Fits("Vec<i32>", T.b, ser)
    [] f = "(i32,String)" -> T.k = "tuple" /\ (IF ser THEN Len(T.ts) >= 2 ELSE Len(T.ts) = 2)
                             /\ Fits("i32", T.ts[1], ser) /\ Fits("String", T.ts[2], ser)
    [] f \in DOMAIN UdtNames -> IF ser THEN T.k = "udt" /\ \A n \in UdtNames[f] : \E i \in 1..Len(T.fs) : T.fs[i].n = n /\ IsNative(T.fs[i].t, UdtFieldT(n))
                                ELSE TRUE                        \* a dynamic value reads anything
    [] f = "Vec<CqlValue::Udt{a,x}>" -> T.k \in {"list", "set", "vector"} /\ (ser => Fits("CqlValue::Udt{a,x}", T.e, ser))
    [] f = "(i32,)" -> T.k = "tuple" /\ (IF ser THEN Len(T.ts) >= 1 ELSE Len(T.ts) = 1) /\ Fits("i32", T.ts[1], ser)
    [] OTHER -> FALSE

\* families that cannot be read into at all
NoRead(f) == f \in {"[u8;4]", "MaybeUnset<i32>"}

\* (a refused value may leave partial bytes in a bare CellWriter's buffer: the roll-back happens one level up,
\*  in SerializedValues.add_value — judged by SerializedValues.tla — so `ser_left` is recorded but not judged here)
\* the same collection carriers holding NO element: the column must still be a collection of the carrier's kind (no shortcut
\* around the check because there is nothing to encode); whether the element type of an empty collection is looked at is not
\* judged (nothing of a wrong type is sent), nor is an empty sequence against a vector type (dimension count)
EmptyFams == {"empty:HashSet<i32>", "empty:BTreeSet<String>", "empty:Vec<i32>", "empty:HashMap<String,i32>", "empty:BTreeMap<i32,String>"}
BaseOf(f) == CASE f = "empty:HashSet<i32>" -> "HashSet<i32>" [] f = "empty:BTreeSet<String>" -> "BTreeSet<String>" [] f = "empty:Vec<i32>" -> "Vec<i32>"
               [] f = "empty:HashMap<String,i32>" -> "HashMap<String,i32>" [] f = "empty:BTreeMap<i32,String>" -> "BTreeMap<i32,String>"
KindFits(b, T) == IF b \in {"HashMap<String,i32>", "BTreeMap<i32,String>"} THEN T.k = "map" ELSE T.k \in {"set", "list"}
MatrixOK(r) ==
  IF r.carrier \in EmptyFams THEN
    LET b == BaseOf(r.carrier) IN
    /\ r.ser_panic = 0
    /\ (r.t.k # "vector" /\ ~KindFits(b, r.t)) => r.ser_ok = 0
    /\ (r.t.k # "vector" /\ Fits(b, r.t, TRUE)) => r.ser_ok = 1
    /\ r.tc_ok = (IF Fits(b, r.t, FALSE) THEN 1 ELSE 0)
  ELSE
  /\ r.ser_panic = 0
  /\ r.ser_ok = (IF Fits(r.carrier, r.t, TRUE) THEN 1 ELSE 0)
  /\ IF NoRead(r.carrier) THEN r.tc_ok = -1
     ELSE r.tc_ok = (IF Fits(r.carrier, r.t, FALSE) THEN 1 ELSE 0)
=============================================================================
