------------------------- MODULE Trace_HandlerMapProp -------------------------
(***************************************************************************)
(* Judge for operation sequences executed on the real ResponseHandlerMap   *)
(* (C02).  owner: stream -> request that was given the id and whose        *)
(* response has not been looked up yet; orphaned: those whose caller left. *)
(*  - an id is never handed out while it is still owed a response;         *)
(*  - a response is routed to the request that carried the id, to nobody   *)
(*    if that request was abandoned, and `Missing` (which tears the        *)
(*    connection down) is answered only for an id that is owed nothing;    *)
(*  - a late orphan notice never affects the id's next owner;              *)
(*  - into_handlers returns exactly the live (non-orphaned) handlers.      *)
(* Drift only: allocation fails although an id is free.                    *)
(***************************************************************************)
EXTENDS Naturals, Integers, Sequences, FiniteSets, Json, IOUtils, TLC
Rec == ndJsonDeserialize(IOEnv.TRACE)
VARIABLES l, owner, orphaned, free
tvars == <<l, owner, orphaned, free>>
TraceInit == l = 1 /\ owner = << >> /\ orphaned = {} /\ free = {} /\ TLCSet(1, 1)
IsEvent(e) == l <= Len(Rec) /\ Rec[l].ev = e /\ l' = l + 1
Upd(f, k, v) == [x \in DOMAIN f \cup {k} |-> IF x = k THEN v ELSE f[x]]
Del(f, k) == [x \in DOMAIN f \ {k} |-> f[x]]
SeqToSet(s) == {s[i] : i \in 1..Len(s)}

TrInit == IsEvent("Init") /\ free' = SeqToSet(Rec[l].free) /\ owner' = << >> /\ orphaned' = {}
TrAlloc ==
  /\ IsEvent("PAlloc")
  /\ LET e == Rec[l] IN
     IF e.ok = 1
     THEN /\ e.stream \notin DOMAIN owner                 \* never two unanswered requests on one id
          /\ e.stream \in free                            \* only ids nobody is owed
          /\ owner' = Upd(owner, e.stream, e.r) /\ free' = free \ {e.stream} /\ UNCHANGED orphaned
     ELSE /\ (IF free = {} THEN TRUE ELSE PrintT(<<"DRIFT", "allocation failed although an id is free", free>>))
          /\ UNCHANGED <<owner, orphaned, free>>
TrLookup ==
  /\ IsEvent("PLookup")
  /\ LET e == Rec[l]  s == e.stream IN
     /\ IF s \in DOMAIN owner
        THEN IF s \in orphaned THEN e.res = "orphaned"
             ELSE e.res = "handler" /\ e.req = owner[s]
        ELSE e.res = "missing"
     /\ owner' = IF s \in DOMAIN owner THEN Del(owner, s) ELSE owner
     /\ orphaned' = orphaned \ {s}
     /\ free' = free \cup {s}
TrOrphan ==
  /\ IsEvent("POrphan")
  /\ LET S == {s \in DOMAIN owner : owner[s] = Rec[l].r} IN orphaned' = orphaned \cup S
  /\ UNCHANGED <<owner, free>>
TrInto ==
  /\ IsEvent("PInto")
  /\ SeqToSet(Rec[l].pairs) = {<<s, owner[s]>> : s \in DOMAIN owner \ orphaned}
  /\ UNCHANGED <<owner, orphaned, free>>
TrReset == IsEvent("Reset") /\ owner' = << >> /\ orphaned' = {} /\ free' = {}
TraceNext == TrInit \/ TrAlloc \/ TrLookup \/ TrOrphan \/ TrInto \/ TrReset
TraceSpec == TraceInit /\ [][TraceNext]_tvars
Progress == TLCSet(1, IF l > TLCGet(1) THEN l ELSE TLCGet(1))
TraceAccepted == IF TLCGet(1) = Len(Rec) + 1 THEN TRUE
                 ELSE PrintT(<<"REJECTED at line", TLCGet(1)>>) /\ FALSE
=============================================================================
