-------------------------- MODULE Trace_SpecClassify --------------------------
(***************************************************************************)
(* C13 — which failure of one execution is definitive (ends the call at    *)
(* once) and which is passed over while another execution may still        *)
(* succeed.  The table is the meaning of the two classes: a failure that   *)
(* says something about ONE node or ONE connection (pool not usable, broken*)
(* connection, no free stream id, node-side unavailability / timeouts /    *)
(* overload / bootstrap / unprepared / rate limit / server error) is       *)
(* ignorable; a failure that every node would repeat (syntax, invalid,     *)
(* exists, unauthorized, protocol, auth, config, truncate, function,       *)
(* unknown code, client-side faults, timeout of the whole request) is      *)
(* definitive.  Records of `vh-driver c13 classify`: the original          *)
(* execution fails with the error at t = 1, a speculative one succeeds at  *)
(* t = 5.                                                                  *)
(***************************************************************************)
EXTENDS Naturals, Sequences, Json, IOUtils, TLC
Rec == ndJsonDeserialize(IOEnv.TRACE)
VARIABLE l
Ignorable == {"Unavailable", "Overloaded", "IsBootstrapping", "ReadTimeout", "WriteTimeout", "ReadFailure", "WriteFailure", "Unprepared", "ServerError",
              "RateLimitReached", "UnableToAllocStreamId", "BrokenConnection", "PoolInitializing", "PoolNodeDisabledByHostFilter", "PoolBroken"}
Definitive == {"SyntaxError", "Invalid", "AlreadyExists", "Unauthorized", "ProtocolError", "AuthenticationError", "Other", "FunctionFailure", "ConfigError",
               "TruncateError", "RepreparedIdMissingInBatch", "NonfinishedPagingState", "EmptyPlan", "RequestTimeout"}
\* "Bound" records: executions that each take 5 units and succeed, max speculative executions, interval 0 or 1: never more than
\* 1 + max are started, exactly that many when they fit before the first one ends, and the first answer (t = 5) is returned
BoundOK(r) == /\ r.started <= 1 + r.max
              /\ r.started = 1 + r.max             \* (interval <= 1 unit, 5 units each: all of them fit)
              /\ r.result = "Ok" /\ r.t = 5
ClassOK(r) == IF r.name = "Bound" THEN BoundOK(r) ELSE
              /\ r.name \in Ignorable \cup Definitive
              /\ (r.name \in Ignorable => r.result = "Ok" /\ r.t = 5)          \* passed over: the later success is returned
              /\ (r.name \in Definitive => r.result = "Err" /\ r.t = 1)        \* returned at once
TraceInit == l = 1 /\ TLCSet(1, 1)
TraceNext == l <= Len(Rec) /\ (IF ClassOK(Rec[l]) THEN TRUE ELSE PrintT(<<"BAD", l>>)) /\ l' = l + 1
TraceSpec == TraceInit /\ [][TraceNext]_l
Progress == TLCSet(1, IF l > TLCGet(1) THEN l ELSE TLCGet(1))
TraceAccepted == IF TLCGet(1) = Len(Rec) + 1 THEN TRUE ELSE PrintT(<<"REJECTED at line", TLCGet(1)>>) /\ FALSE
=============================================================================
