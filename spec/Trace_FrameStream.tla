-------------------------- MODULE Trace_FrameStream --------------------------
(***************************************************************************)
(* C08 — frames read one after another from ONE byte stream: each frame    *)
(* read is exactly the frame that was written (its own header, a body of   *)
(* exactly the announced length, none of the neighbour's bytes), all of    *)
(* them are read and nothing is left over.  Records of `vh-cql c08-stream`;*)
(* byte j of the body of frame i (0-based) is (31 i + j) mod 251.          *)
(***************************************************************************)
EXTENDS Naturals, Integers, Sequences, Json, IOUtils, TLC
Rec == ndJsonDeserialize(IOEnv.TRACE)
VARIABLE l
Byte(i, j) == (31 * i + j) % 251
FrameOK(f, i, len) ==
  /\ f.ok = 1 /\ f.stream = i /\ f.opcode = 2 /\ f.flags = 0
  /\ f.body_len = len /\ f.wrong = 0
  /\ f.first = (IF len = 0 THEN -1 ELSE Byte(i, 0)) /\ f.last = (IF len = 0 THEN -1 ELSE Byte(i, len - 1))
OK(r) == /\ Len(r.frames) = Len(r.lens) /\ r.rest = 0
         /\ \A k \in 1..Len(r.frames) : FrameOK(r.frames[k], k - 1, r.lens[k])
TraceInit == l = 1 /\ TLCSet(1, 1)
TraceNext == l <= Len(Rec) /\ (IF OK(Rec[l]) THEN TRUE ELSE PrintT(<<"BAD", l>>)) /\ l' = l + 1
TraceSpec == TraceInit /\ [][TraceNext]_l
Progress == TLCSet(1, IF l > TLCGet(1) THEN l ELSE TLCGet(1))
TraceAccepted == IF TLCGet(1) = Len(Rec) + 1 THEN TRUE ELSE PrintT(<<"REJECTED at line", TLCGet(1)>>) /\ FALSE
=============================================================================
