---------------------------- MODULE MC_ShortTuple ----------------------------
(* C01: "a tuple given fewer fields than its type comes back padded with nulls" through the TYPED Rust tuples.  A tuple type  *)
(* of n elements (int, text, bigint), a value carrying only its first k elements (k = 0..n, any of them null), as bytes        *)
(* written here; `want[i]` = 1 if element i must come back as its value, 0 if as null (absent or null).  The harness decodes  *)
(* into (Option<i32>, Option<String>[, Option<i64>]) directly and as the elements of a two-element list.                      *)
EXTENDS Naturals, Sequences, TLC, Json
Int4(n) == <<(n \div 16777216) % 256, (n \div 65536) % 256, (n \div 256) % 256, n % 256>>
Val(i) == CASE i = 1 -> <<0, 0, 0, 7>> [] i = 2 -> <<97, 98>> [] i = 3 -> <<0, 0, 0, 0, 0, 0, 0, 9>>
Cell(i, null) == IF null THEN <<255, 255, 255, 255>> ELSE Int4(Len(Val(i))) \o Val(i)
RECURSIVE Wire(_, _, _)
Wire(i, k, mask) == IF i > k THEN << >> ELSE Cell(i, i \in mask) \o Wire(i + 1, k, mask)
VARIABLE c
Init == \E n \in {2, 3} : \E k \in 0..n : \E mask \in SUBSET (1..k) :
          c = [n |-> n, k |-> k, wire |-> Wire(1, k, mask), want |-> [i \in 1..n |-> IF i <= k /\ i \notin mask THEN 1 ELSE 0]]
Next == UNCHANGED c
Spec == Init /\ [][Next]_c
Emit == PrintT(<<"SHORT", ToJson(c)>>)
=============================================================================
