---------------------------- MODULE HandlerMapGen ----------------------------
(* Generator of operation sequences for the stream-id / handler map (C02):    *)
(* allocate for a new request, a response arriving for the stream of request  *)
(* r (also late / duplicate), an unsolicited response, an orphan notice for   *)
(* request r (also late, or for a request that never got an id), and the      *)
(* final into_handlers.  K ids are free initially.                            *)
EXTENDS Naturals, Sequences, TLC, Json
CONSTANTS R, K, MaxLen
VARIABLES st, nalloc, ops, fin
vars == <<st, nalloc, ops, fin>>
Init == st = [r \in 1..R |-> "none"] /\ nalloc = 0 /\ ops = << >> /\ fin = FALSE
Held == {r \in 1..R : st[r] \in {"owned", "orphaned"}}
Card(S) == IF S = {} THEN 0 ELSE LET f[T \in SUBSET S] == IF T = {} THEN 0 ELSE 1 + f[T \ {CHOOSE x \in T : TRUE}] IN f[S]
Can == ~fin /\ Len(ops) < MaxLen
A == /\ Can /\ nalloc < R
     /\ nalloc' = nalloc + 1
     /\ st' = [st EXCEPT ![nalloc + 1] = IF Card(Held) < K THEN "owned" ELSE "failed"]
     /\ ops' = Append(ops, <<"A", nalloc + 1>>) /\ UNCHANGED fin
L(r) == /\ Can /\ st[r] \in {"owned", "orphaned", "freed"}
        /\ st' = [st EXCEPT ![r] = "freed"]
        /\ ops' = Append(ops, <<"L", r>>) /\ UNCHANGED <<nalloc, fin>>
LU == /\ Can /\ ops' = Append(ops, <<"LU", 0>>) /\ UNCHANGED <<st, nalloc, fin>>
O(r) == /\ Can /\ st[r] # "none"
        /\ st' = [st EXCEPT ![r] = IF @ = "owned" THEN "orphaned" ELSE @]
        /\ ops' = Append(ops, <<"O", r>>) /\ UNCHANGED <<nalloc, fin>>
I == /\ ~fin /\ ops # << >> /\ fin' = TRUE /\ ops' = Append(ops, <<"I", 0>>) /\ UNCHANGED <<st, nalloc>>
Next == A \/ LU \/ I \/ \E r \in 1..R : L(r) \/ O(r)
Spec == Init /\ [][Next]_vars
Emit == fin => PrintT(<<"REPLAY", ToJson(ops)>>)
=============================================================================
