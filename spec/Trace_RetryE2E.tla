---------------------------- MODULE Trace_RetryE2E ----------------------------
EXTENDS RetryE2E, Json, IOUtils, TLC
Rec == ndJsonDeserialize(IOEnv.TRACE)
VARIABLE l
TraceInit == l = 1 /\ TLCSet(1, 1)
TraceNext == /\ l <= Len(Rec)
             /\ (IF E2EOK(Rec[l]) THEN TRUE ELSE PrintT(<<"BAD", l>>))
             /\ (IF Rec[l].spec.max > 0 \/ Rec[l].start_err # "" \/ TableOK(Rec[l]) THEN TRUE ELSE PrintT(<<"DRIFT", l>>))
             /\ l' = l + 1
TraceSpec == TraceInit /\ [][TraceNext]_l
Progress == TLCSet(1, IF l > TLCGet(1) THEN l ELSE TLCGet(1))
TraceAccepted == IF TLCGet(1) = Len(Rec) + 1 THEN TRUE ELSE PrintT(<<"REJECTED at line", TLCGet(1)>>) /\ FALSE
=============================================================================
