---------------------------- MODULE Trace_CqlValue ----------------------------
(* Judge for C01 records (see harness/vh-cql/FORMAT.md): the bytes the real     *)
(* serializer produced are the reference encoding of the value, and decoding    *)
(* them yields the value (short tuples / UDTs padded with nulls).               *)
EXTENDS CqlValue, Json, IOUtils, TLC
Rec == ndJsonDeserialize(IOEnv.TRACE)
VARIABLE l
TraceInit == l = 1 /\ TLCSet(1, 1)
IsNull(x) == x = ""          \* absent error texts are written as empty strings (TLC's Json has no null)
Good(r) ==
  /\ IsNull(r.ser_err)
  \* a tuple / UDT given fewer fields than its type may be written short or with explicit trailing nulls
  /\ (r.cell = Cell(r.t, r.v) \/ r.cell = Cell(r.t, Pad(r.t, r.v)))
  /\ \/ r.decoded.k = "skip"
     \/ (IsNull(r.de_err) /\ r.decoded = Pad(r.t, r.v))
TraceNext == l <= Len(Rec) /\ Good(Rec[l]) /\ l' = l + 1
TraceSpec == TraceInit /\ [][TraceNext]_l
Progress == TLCSet(1, IF l > TLCGet(1) THEN l ELSE TLCGet(1))
TraceAccepted == IF TLCGet(1) = Len(Rec) + 1 THEN TRUE
                 ELSE PrintT(<<"REJECTED at line", TLCGet(1)>>) /\ FALSE
=============================================================================
