SPECIFICATION Spec
CONSTANTS
  Nodes = {1, 2}
  MaxRounds = 5
  Scripts <- ScriptsC
INVARIANTS Agreed NoEarlyOk FatalStops Patience FunctionAgrees
PROPERTIES Terminates
CHECK_DEADLOCK FALSE
