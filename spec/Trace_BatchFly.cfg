SPECIFICATION TraceSpec
CONSTRAINT Progress
POSTCONDITION TraceAccepted
CHECK_DEADLOCK FALSE
