------------------------------- MODULE Murmur3 -------------------------------
(***************************************************************************)
(* C03 — Cassandra's MurmurHash.hash3_x64_128 (seed 0) as used by the      *)
(* Murmur3Partitioner, on U64 limbs.  Blocks are read as unsigned          *)
(* little-endian longs; the TAIL bytes are sign-extended (`(long) byte`),  *)
(* which is Cassandra's variant; the token is h1 with Long.MIN_VALUE       *)
(* mapped to Long.MAX_VALUE.  Also the partition-key encoding and the CDC  *)
(* partitioner's token.  (All operators bind their arguments to values     *)
(* first - see the evaluation note in U64.)                                *)
(***************************************************************************)
EXTENDS U64

C1 == <<213, 83, 66, 17, 145, 123, 195, 135>>      \* 0x87c37b91114253d5
C2 == <<127, 147, 69, 39, 67, 173, 245, 76>>       \* 0x4cf5ad432745937f
K5 == <<5, 0, 0, 0, 0, 0, 0, 0>>
N1 == <<41, 231, 220, 82, 0, 0, 0, 0>>             \* 0x52dce729
N2 == <<181, 90, 73, 56, 0, 0, 0, 0>>              \* 0x38495ab5
F1 == <<205, 140, 85, 237, 215, 175, 81, 255>>     \* 0xff51afd7ed558ccd
F2 == <<83, 236, 133, 26, 254, 185, 206, 196>>     \* 0xc4ceb9fe1a85ec53

MixK1(k) == Mul(Rotl(Mul(k, C1), 31), C2)
MixK2(k) == Mul(Rotl(Mul(k, C2), 33), C1)

\* one 16-byte block: state <<h1, h2>>
BlockV(h, k1, k2) ==
  S1(Add(Mul(Add(Rotl(BXor(h[1], MixK1(k1)), 27), h[2]), K5), N1),
     LAMBDA h1b : <<h1b, Add(Mul(Add(Rotl(BXor(h[2], MixK2(k2)), 31), h1b), K5), N2)>>)
Block(h, k1, k2) == S3(h, k1, k2, BlockV)

FmixStep(k, m) == S1(BXor(k, Shr(k, 33)), LAMBDA a : Mul(a, m))
Fmix(k) == S1(FmixStep(FmixStep(k, F1), F2), LAMBDA d : BXor(d, Shr(d, 33)))

\* sign-extended byte shifted left by 8*j bits
SExt(b, j) == LET f(i) == IF i <= j THEN 0 ELSE IF i = j + 1 THEN b ELSE IF b >= 128 THEN 255 ELSE 0 IN T8(f)

\* XOR of the sign-extended tail bytes t[1..m] (m <= 8), byte x at shift 8*(x-1)
TailKV(t) == LET X[i \in 0..Len(t)] == IF i = 0 THEN Zero ELSE S1(X[i - 1], LAMBDA acc : BXorV(acc, SExt(t[i], i - 1))) IN X[Len(t)]
TailK(t) == S1(t, TailKV)

Sub(s, a, b) == IF a > b THEN << >> ELSE SubSeq(s, a, b)

HashV(data) ==
  LET n == Len(data)
      nb == n \div 16
      H[i \in 0..nb] == IF i = 0 THEN <<Zero, Zero>>
                        ELSE Block(H[i - 1], SubSeq(data, 16 * (i - 1) + 1, 16 * (i - 1) + 8),
                                             SubSeq(data, 16 * (i - 1) + 9, 16 * i))
      tail == Sub(data, 16 * nb + 1, n)
      tl == Len(tail)
      Finish(h) ==
        LET h2t == IF tl > 8 THEN BXor(h[2], MixK2(TailK(Sub(tail, 9, tl)))) ELSE h[2]
            h1t == IF tl > 0 THEN BXor(h[1], MixK1(TailK(Sub(tail, 1, IF tl < 8 THEN tl ELSE 8)))) ELSE h[1]
            lenb == FromNat(n)
        IN S2(BXor(h1t, lenb), BXor(h2t, lenb),
              LAMBDA h1a, h2a : S1(AddV(h1a, h2a),
                 LAMBDA h1b : S2(Fmix(h1b), Fmix(AddV(h2a, h1b)), AddV)))
  IN S1(H[nb], Finish)
Hash(data) == S1(data, HashV)

MinLong == <<0, 0, 0, 0, 0, 0, 0, 128>>
MaxLong == <<255, 255, 255, 255, 255, 255, 255, 127>>
Normalize(h) == S1(h, LAMBDA x : IF x = MinLong THEN MaxLong ELSE x)

\* the Murmur3Partitioner's token (little-endian limbs of the i64)
Token(data) == Normalize(Hash(data))

(* Partition key: the single component's bytes, or for composite keys each   *)
(* component as 2-byte big-endian length, bytes, zero byte - in KEY order.    *)
Len16(n) == <<n \div 256, n % 256>>
Concat(ss) == LET F[i \in 0..Len(ss)] == IF i = 0 THEN << >> ELSE F[i - 1] \o ss[i] IN F[Len(ss)]
EncodePk(comps) == IF Len(comps) = 1 THEN comps[1]
                   ELSE Concat([i \in 1..Len(comps) |-> Len16(Len(comps[i])) \o comps[i] \o <<0>>])

\* CDC partitioner: the first 8 bytes of the key as a big-endian long; too short -> minimum token
CdcToken(data) == IF Len(data) < 8 THEN MinLong
                  ELSE Normalize(<<data[8], data[7], data[6], data[5], data[4], data[3], data[2], data[1]>>)
=============================================================================
