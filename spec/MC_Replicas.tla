----------------------------- MODULE MC_Replicas -----------------------------
(* Lemmas of the placement reference on small rings, and the topology table.   *)
EXTENDS Replicas, TLC, Json
CONSTANTS MaxNodes
AttrKinds == << <<"dc1", "r1">>, <<"dc1", "r2">>, <<"dc1", "">>, <<"dc2", "r1">>, <<"dc2", "r2">>, <<"", "">> >>
VARIABLE c
\* nodes listed with non-decreasing attribute kind (symmetry), vnode patterns: all 1 / first 2 / all 2
Init == \E n \in 1..MaxNodes : \E ks \in [1..n -> 1..Len(AttrKinds)] : \E vp \in 1..3 :
          /\ \A i \in 1..(n - 1) : ks[i] <= ks[i + 1]
          /\ c = [attr |-> [i \in 1..n |-> AttrKinds[ks[i]]],
                  vnodes |-> [i \in 1..n |-> IF vp = 3 \/ (vp = 2 /\ i = 1) THEN 2 ELSE 1]]
Next == UNCHANGED c
Spec == Init /\ [][Next]_c
\* lemmas, checked on the canonical ring "node i owns position 2i (and 2(n+i) when it has 2 vnodes)"
Ring == LET n == Len(c.attr)
            extra == SelectSeq([i \in 1..n |-> i], LAMBDA i : c.vnodes[i] = 2)
        IN [i \in 1..n |-> <<2 * i, i>>] \o [j \in 1..Len(extra) |-> <<2 * (n + j), extra[j]>>]
Qs == 1..(2 * Len(Ring) + 1)
SimpleLemma == \A q \in Qs : \A rf \in 0..(Len(c.attr) + 1) :
   Len(Simple(Ring, q, rf)) = Min(rf, Len(c.attr))
NtsLemma == \A q \in Qs : \A rf \in 0..3 : \A dc \in {"dc1", "dc2", "dc3"} :
   LET r == NtsDc(Ring, c.attr, q, dc, rf)
       dcn == {i \in 1..Len(c.attr) : c.attr[i][1] = dc} IN
   /\ Len(r) = Min(rf, Cardinality(dcn))
   /\ SeqSet(r) \subseteq dcn
   /\ Cardinality(SeqSet(r)) = Len(r)
Emit == PrintT(<<"TOPO", ToJson(c)>>)
=============================================================================
