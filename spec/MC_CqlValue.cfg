SPECIFICATION Spec
CONSTANTS Depth2 = TRUE
INVARIANTS PrefixOK Emit
CHECK_DEADLOCK FALSE
