-------------------------------- MODULE Retry --------------------------------
(***************************************************************************)
(* C06 — the request execution loop (one fiber of                          *)
(* run_request_speculative_fiber) driven by a built-in retry policy over   *)
(* every history of per-attempt failures.                                  *)
(*   RetrySameTarget  -> attempt again on the same target (new consistency)*)
(*   RetryNextTarget  -> next target of the plan, or fail if exhausted     *)
(*   DontRetry        -> fail;   IgnoreWriteError -> empty success         *)
(* Each state with status = "running" is about to SEND an attempt.         *)
(***************************************************************************)
EXTENDS RetryProp, TLC

CONSTANTS Plan            \* number of targets in the plan

VARIABLES pol, idem, cl0, cl, fl, tgt, same, attempts, prevErr, prevCl, status

vars == <<pol, idem, cl0, cl, fl, tgt, same, attempts, prevErr, prevCl, status>>
NoErr == Sym("none", 0, 0, FALSE, "-")

Init == /\ pol \in Policies /\ idem \in BOOLEAN /\ cl0 \in Consistencies /\ cl = cl0
        /\ fl = Fresh /\ tgt = 1 /\ same = 0 /\ attempts = 0 /\ prevErr = NoErr /\ prevCl = cl0
        /\ status = "running"

Success == /\ status = "running" /\ status' = "ok" /\ attempts' = attempts + 1
           /\ UNCHANGED <<pol, idem, cl0, cl, fl, tgt, same, prevErr, prevCl>>

Fail(e) ==
  /\ status = "running"
  /\ attempts' = attempts + 1
  /\ prevErr' = e /\ prevCl' = cl
  /\ LET o == Decide(pol, fl, idem, cl, e) IN
     /\ fl' = o.fl
     /\ cl' = IF o.cl = "keep" THEN cl ELSE o.cl
     /\ CASE o.d = "same" -> /\ same' = same + 1 /\ UNCHANGED tgt /\ status' = "running"
          [] o.d = "next" -> /\ UNCHANGED same
                             /\ IF tgt < Plan THEN tgt' = tgt + 1 /\ status' = "running"
                                ELSE UNCHANGED tgt /\ status' = "failed"
          [] o.d = "ignore" -> UNCHANGED <<same, tgt>> /\ status' = "ignored"
          [] OTHER -> UNCHANGED <<same, tgt>> /\ status' = "failed"
  /\ UNCHANGED <<pol, idem, cl0>>

Next == Success \/ \E e \in Symbols : Fail(e)
Spec == Init /\ [][Next]_vars

(* (i) a request not marked idempotent is re-sent only after a failure that proves non-application *)
NonIdempotentSafe == (status = "running" /\ prevErr # NoErr /\ ~idem) => Safe(prevErr)
(* (ii) the default policy never retries at serial consistency *)
DefaultSerialNoRetry == (status = "running" /\ prevErr # NoErr /\ pol = "Default") => ~Serial(prevCl)
(* (iii) attempts bounded by plan length + the policy's same-node budget *)
Bounded == same <= Budget(pol) /\ attempts <= Plan + Budget(pol)
(* Fallthrough never retries *)
FallthroughNever == (pol = "Fallthrough") => attempts <= 1
=============================================================================
