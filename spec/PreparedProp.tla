---------------------------- MODULE PreparedProp ----------------------------
(***************************************************************************)
(* C14 — pure definitions shared by the design model (Prepared.tla) and    *)
(* the trace judge (Trace_Prepared.tla): the small SERVER MODEL of         *)
(* harness/vh-driver/C14.md (schema versions, metadata ids, what a node    *)
(* answers to EXECUTE) and what the caller must see.                       *)
(***************************************************************************)
EXTENDS Integers, Sequences, FiniteSets

None == [some |-> 0]
Some(v) == [some |-> 1, v |-> v]

Mid(v) == <<193, v>>                        \* result-metadata id of schema version v
NCols(v) == 1 + v                           \* (design model: every schema version has its own column layout)
\* the column layout: [extra |-> number of added int columns c2.., bgen |-> version at which column b was last renamed (0: "b")]
Layout0 == [extra |-> 0, bgen |-> 0]
BName(g) == CASE g = 0 -> "b" [] g = 2 -> "b2" [] g = 3 -> "b3" [] g = 4 -> "b4" [] g = 5 -> "b5" [] g = 6 -> "b6"
ColNames(ly) == <<"a", BName(ly.bgen)>> \o SubSeq(<<"c2", "c3", "c4", "c5", "c6">>, 1, ly.extra)
\* row r (0 or 1) of the SELECT for key pk at schema version v with layout ly; cells as checks/c14.py renders them
RowOf(v, ly, pk, r) == <<[k |-> "i", n |-> 10 * pk + r], [k |-> "s", v |-> v]>> \o [i \in 1..ly.extra |-> [k |-> "i", n |-> 100 * v + i + 1]]
RowsOf(v, ly, pk) == <<RowOf(v, ly, pk, 0), RowOf(v, ly, pk, 1)>>

\* what node n answers to an EXECUTE of the SELECT
ExecReply(ext, ver, isPrepared, rmid, skip) ==
  IF ~isPrepared THEN "unprepared"
  ELSE IF ext = 1 THEN (IF rmid = Some(Mid(ver)) /\ skip = 1 THEN "rows_nometa"
                        ELSE IF rmid # Some(Mid(ver)) THEN "rows_meta_newid" ELSE "rows_meta")
  ELSE IF skip = 1 THEN "rows_nometa" ELSE "rows_meta"
PkBytes(pk) == <<0, 0, 0, pk>>
=============================================================================
