---------------------------- MODULE PreparedProp ----------------------------
(***************************************************************************)
(* C14 — pure definitions shared by the design model (Prepared.tla) and    *)
(* the trace judge (Trace_Prepared.tla): the small SERVER MODEL of         *)
(* harness/vh-driver/C14.md (schema versions, metadata ids, what a node    *)
(* answers to EXECUTE) and what the caller must see.                       *)
(***************************************************************************)
EXTENDS Integers, Sequences, FiniteSets

None == [some |-> 0]
Some(v) == [some |-> 1, v |-> v]

Mid(v) == <<193, v>>                        \* result-metadata id of schema version v
NCols(v) == 1 + v                           \* a int, b text, c2 .. cv int
ColNames(n) == SubSeq(<<"a", "b", "c2", "c3", "c4", "c5", "c6">>, 1, n)
ItoS(n) == CASE n = 1 -> "1" [] n = 2 -> "2" [] n = 3 -> "3" [] n = 4 -> "4" [] n = 5 -> "5" [] n = 6 -> "6"
\* cells as the judge sees them (checks/c14.py renders every cell as a string): ints "i:<n>", text "s:<text>"
RECURSIVE Dec(_)
Dec(n) == IF n < 10 THEN <<n>> ELSE Dec(n \div 10) \o <<n % 10>>
\* row r (0 or 1) of the SELECT for key pk at schema version v, as numbers / version-tagged text
RowOf(v, pk, r) == <<[k |-> "i", n |-> 10 * pk + r], [k |-> "s", v |-> v]>> \o [i \in 1..(v - 1) |-> [k |-> "i", n |-> 100 * v + i + 1]]
RowsOf(v, pk) == <<RowOf(v, pk, 0), RowOf(v, pk, 1)>>

\* what node n answers to an EXECUTE of the SELECT
ExecReply(ext, ver, isPrepared, rmid, skip) ==
  IF ~isPrepared THEN "unprepared"
  ELSE IF ext = 1 THEN (IF rmid = Some(Mid(ver)) /\ skip = 1 THEN "rows_nometa"
                        ELSE IF rmid # Some(Mid(ver)) THEN "rows_meta_newid" ELSE "rows_meta")
  ELSE IF skip = 1 THEN "rows_nometa" ELSE "rows_meta"
PkBytes(pk) == <<0, 0, 0, pk>>
=============================================================================
