------------------------- MODULE MC_SchemaAgreement -------------------------
(* Scripts for SchemaAgreement: 2 or 3 nodes, 1..3 scripted rounds over the   *)
(* answers {A, B, T, F} (+ R, U on one node), every combination.              *)
EXTENDS Naturals, Sequences, TLC, Json
Alpha == {"A", "B", "T", "F"}
Seqs(S, n) == IF n = 1 THEN {<<a>> : a \in S} ELSE IF n = 2 THEN {<<a, b>> : a \in S, b \in S} ELSE {<<a, b, d>> : a \in S, b \in S, d \in S}
VARIABLE c
Init == \/ \E l1 \in 1..3 : \E l2 \in 1..2 : \E s1 \in Seqs(Alpha, l1) : \E s2 \in Seqs(Alpha, l2) : c = <<s1, s2>>
        \/ \E s1 \in Seqs({"A", "B", "R", "U"}, 2) : \E s2 \in Seqs({"A", "T"}, 2) : \E s3 \in Seqs({"A", "B"}, 2) : c = <<s1, s2, s3>>
Next == UNCHANGED c
Spec == Init /\ [][Next]_c
Emit == PrintT(<<"SCRIPT", ToJson([script |-> c])>>)
=============================================================================
