------------------------------ MODULE CqlRequest ------------------------------
(***************************************************************************)
(* C09 — CQL binary protocol v4 request frames, as an independent encoder  *)
(* (native_protocol_v4.spec sections 2, 4.1; ScyllaDB's result-metadata-id *)
(* extension for EXECUTE).  A request description d is a record:           *)
(*   op in query|execute|batch|prepare|startup|register|options|auth       *)
(*   tracing 0|1;  text / id / token : byte sequences                      *)
(*   params = [cl, serial <<some, code>>, ts <<some, I>>, page <<some, n>>, *)
(*             ps <<some, bytes>>, skip 0|1, values seq of cells]          *)
(*   cell = [k |-> "val", b |-> bytes] | [k |-> "null"] | [k |-> "unset"]  *)
(*   batch: type, stmts seq of [kind 0|1, text|id, values], cl, serial, ts *)
(***************************************************************************)
EXTENDS CqlValue

Short(n) == BE(n, 2)
StringB(b) == Short(Len(b)) \o b                 \* [string] / [short bytes]
LongStringB(b) == Int32(Len(b)) \o b             \* [long string]
BytesB(b) == Int32(Len(b)) \o b                  \* [bytes]

ValueCell(c) == CASE c.k = "null" -> NullLen [] c.k = "unset" -> UnsetLen [] OTHER -> BytesB(c.b)
Values(vs) == Short(Len(vs)) \o Concat([i \in 1..Len(vs) |-> ValueCell(vs[i])])

\* <<some, x>> options
Some(o) == o[1] = 1

QueryFlags(p) ==
  (IF Len(p.values) > 0 THEN 1 ELSE 0) + (IF p.skip = 1 THEN 2 ELSE 0) + (IF Some(p.page) THEN 4 ELSE 0)
  + (IF Some(p.ps) THEN 8 ELSE 0) + (IF Some(p.serial) THEN 16 ELSE 0) + (IF Some(p.ts) THEN 32 ELSE 0)

Params(p) ==
  Short(p.cl) \o <<QueryFlags(p)>>
  \o (IF Len(p.values) > 0 THEN Values(p.values) ELSE << >>)
  \o (IF Some(p.page) THEN Int32(p.page[2]) ELSE << >>)
  \o (IF Some(p.ps) THEN BytesB(p.ps[2]) ELSE << >>)
  \o (IF Some(p.serial) THEN Short(p.serial[2]) ELSE << >>)
  \o (IF Some(p.ts) THEN TwosBE(p.ts[2], 8) ELSE << >>)

BatchStmt(s) == (IF s.kind = 0 THEN <<0>> \o LongStringB(s.text) ELSE <<1>> \o StringB(s.id)) \o Values(s.values)
BatchFlags(d) == (IF Some(d.serial) THEN 16 ELSE 0) + (IF Some(d.ts) THEN 32 ELSE 0)

ReqBody(d) ==
  CASE d.op = "query" -> LongStringB(d.text) \o Params(d.params)
    [] d.op = "execute" -> StringB(d.id) \o (IF Some(d.meta_id) THEN StringB(d.meta_id[2]) ELSE << >>) \o Params(d.params)
    [] d.op = "batch" -> <<d.type>> \o Short(Len(d.stmts)) \o Concat([i \in 1..Len(d.stmts) |-> BatchStmt(d.stmts[i])])
                         \o Short(d.cl) \o <<BatchFlags(d)>>
                         \o (IF Some(d.serial) THEN Short(d.serial[2]) ELSE << >>)
                         \o (IF Some(d.ts) THEN TwosBE(d.ts[2], 8) ELSE << >>)
    [] d.op = "prepare" -> LongStringB(d.text)
    [] d.op = "register" -> Short(Len(d.events)) \o Concat([i \in 1..Len(d.events) |-> StringB(d.events[i])])
    [] d.op = "options" -> << >>
    [] d.op = "auth" -> BytesB(d.token)
    [] OTHER -> << >>

Opcode(d) == CASE d.op = "startup" -> 1 [] d.op = "options" -> 5 [] d.op = "query" -> 7 [] d.op = "prepare" -> 9
               [] d.op = "execute" -> 10 [] d.op = "register" -> 11 [] d.op = "batch" -> 13 [] d.op = "auth" -> 15 [] OTHER -> 255

Header(d, compressed, bodylen) == <<4, (IF compressed THEN 1 ELSE 0) + (IF d.tracing = 1 THEN 2 ELSE 0), 0, 0, Opcode(d)>> \o Int32(bodylen)

\* things the length fields cannot express must be refused, not truncated
TooMany(vs) == Len(vs) > 65535
Oversize(d) ==
  CASE d.op = "query" -> TooMany(d.params.values)
    [] d.op = "execute" -> Len(d.id) > 65535 \/ TooMany(d.params.values) \/ (Some(d.meta_id) /\ Len(d.meta_id[2]) > 65535)
    [] d.op = "batch" -> d.nvalsets # Len(d.stmts) \/ Len(d.stmts) > 65535 \/ \E i \in 1..Len(d.stmts) : (TooMany(d.stmts[i].values) \/ (d.stmts[i].kind = 1 /\ Len(d.stmts[i].id) > 65535))
    [] d.op = "register" -> Len(d.events) > 65535 \/ \E i \in 1..Len(d.events) : Len(d.events[i]) > 65535
    [] OTHER -> FALSE

\* STARTUP: a [string map] whose entry order is not determined: parse and compare as a set of pairs
RECURSIVE ParseMap(_, _, _)
ParseMap(b, pos, n) ==   \* returns set of <<key bytes, value bytes>>; the empty tuple in it = the bytes are not such a map
  IF n = 0 THEN (IF pos = Len(b) + 1 THEN {} ELSE {<< >>})
  ELSE IF pos + 1 > Len(b) THEN {<< >>}
  ELSE LET kl == b[pos] * 256 + b[pos + 1] IN
       IF pos + 2 + kl + 1 > Len(b) THEN {<< >>}
       ELSE LET vl == b[pos + 2 + kl] * 256 + b[pos + 3 + kl] IN
            IF pos + 4 + kl + vl - 1 > Len(b) THEN {<< >>}
            ELSE {<<SubSeq(b, pos + 2, pos + 1 + kl), SubSeq(b, pos + 4 + kl, pos + 3 + kl + vl)>>} \cup ParseMap(b, pos + 4 + kl + vl, n - 1)
StartupBodyOK(d, body) ==
  /\ Len(body) >= 2
  /\ body[1] * 256 + body[2] = Len(d.options)
  /\ ParseMap(body, 3, Len(d.options)) = {<<d.options[i][1], d.options[i][2]>> : i \in 1..Len(d.options)}

\* judge of one record r = [d, comp "none"|"lz4"|"snappy", ok, frame, body (decompressed body as reported by reference decoders)]
FrameOK(r) ==
  IF Oversize(r.d) THEN r.ok = 0
  ELSE /\ r.ok = 1
       /\ Len(r.frame) >= 9
       /\ r.undec = 0                                  \* a body sent as compressed is a valid LZ4 / Snappy stream (the harness decompressed it)
       /\ SubSeq(r.frame, 1, 9) = Header(r.d, r.comp # "none", Len(r.frame) - 9)      \* version, flags, stream 0, opcode, length = body size
       /\ IF r.d.op = "startup" THEN StartupBodyOK(r.d, r.body)
          ELSE r.body = ReqBody(r.d)
       /\ (r.comp = "none") => SubSeq(r.frame, 10, Len(r.frame)) = r.body
=============================================================================
