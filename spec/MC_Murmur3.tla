----------------------------- MODULE MC_Murmur3 -----------------------------
(* Sanity facts about the reference and the generator of C03 cases.           *)
EXTENDS Murmur3, TLC, Json, FiniteSets
ASSUME Token(<< >>) = Zero                                   \* murmur3 of the empty input is 0
CONSTANTS Lens, Pats, MaxMarkers, MaxKey, CompLens
VARIABLE c
Inj(k, m) == {s \in [1..k -> 0..(m - 1)] : \A i, j \in 1..k : i # j => s[i] # s[j]}
Init == \/ c \in [kind : {"hash"}, len : Lens, pat : Pats]
        \/ \E m \in 1..MaxMarkers : \E k \in 1..(IF m < MaxKey THEN m ELSE MaxKey) : \E p \in Inj(k, m) : \E cl \in CompLens :
             c = [kind |-> "pk", m |-> m, pkidx |-> p, cl |-> cl]
Next == UNCHANGED c
Spec == Init /\ [][Next]_c
Emit == PrintT(<<"CASE", ToJson(c)>>)
=============================================================================
