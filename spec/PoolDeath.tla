------------------------------ MODULE PoolDeath ------------------------------
(***************************************************************************)
(* C10, pool level: "the session keeps working through the remaining and   *)
(* re-established connections".  Scripts for `vh-driver c20 run` (which    *)
(* also serves this check): a node holding two or more connections stops   *)
(* accepting new ones, one (or all but one) of its connections is closed   *)
(* by FIN or RST, and after a settling pause requests are issued.  Judged: *)
(* every request issued in a step marked settled completes successfully    *)
(* (a live connection remains; a dead one must not be handed out).         *)
(***************************************************************************)
EXTENDS Naturals, Sequences, TLC, Json
Shapes == { [nodes |-> <<[shards |-> 0], [shards |-> 0]>>, pool |-> [kind |-> "per_host", n |-> 2]],
            [nodes |-> <<[shards |-> 0], [shards |-> 0]>>, pool |-> [kind |-> "per_host", n |-> 3]],
            [nodes |-> <<[shards |-> 2], [shards |-> 2]>>, pool |-> [kind |-> "per_shard", n |-> 1]],
            [nodes |-> <<[shards |-> 2]>>, pool |-> [kind |-> "per_shard", n |-> 2]] }
Script(sh, n, rst, twice, back) ==
  [nodes |-> sh.nodes, pool |-> sh.pool, use_delay_ms |-> 0,
   steps |-> <<[op |-> "use", ks |-> "ks1"], [op |-> "req", n |-> 4, settled |-> 1], [op |-> "refuse", node |-> n, on |-> 1],
               [op |-> "kill", node |-> n, which |-> "one", rst |-> rst]>>
             \o (IF twice /\ sh.pool.n >= 3 THEN <<[op |-> "kill", node |-> n, which |-> "one", rst |-> rst]>> ELSE << >>)
             \o <<[op |-> "sleep", ms |-> 250], [op |-> "req", n |-> 16, settled |-> 1], [op |-> "sleep", ms |-> 100], [op |-> "req", n |-> 16, settled |-> 1]>>
             \o (IF back THEN <<[op |-> "refuse", node |-> n, on |-> 0], [op |-> "sleep", ms |-> 1200], [op |-> "req", n |-> 16, settled |-> 1]>> ELSE << >>)]
VARIABLE c
Init == \E sh \in Shapes : \E n \in 0..(Len(sh.nodes) - 1) : \E rst \in {0, 1} : \E twice \in BOOLEAN : \E back \in BOOLEAN : c = Script(sh, n, rst, twice, back)
Next == UNCHANGED c
Spec == Init /\ [][Next]_c
Emit == PrintT(<<"SCRIPT", ToJson(c)>>)
=============================================================================
