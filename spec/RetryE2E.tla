------------------------------ MODULE RetryE2E ------------------------------
(***************************************************************************)
(* End-to-end halves of C06 and C13: ONE request issued through a real     *)
(* Session against a 3-node mock cluster that answers the successive       *)
(* frames of the request from a script.  Pure predicates over the record   *)
(* [kind, idem, policy, cl, spec, ok, frames] of `vh-driver e2e run`;      *)
(* frames[i] = [node, cl (protocol code), reply, t_in, t_out] in arrival   *)
(* order (microseconds on the mock's clock).                               *)
(***************************************************************************)
EXTENDS RetryProp, Integers, FiniteSets
SymOfReply(f) ==
  CASE f = "overloaded" -> Sym("Overloaded", 0, 0, FALSE, "-") [] f = "bootstrapping" -> Sym("Bootstrapping", 0, 0, FALSE, "-")
    [] f = "truncate" -> Sym("Truncate", 0, 0, FALSE, "-") [] f = "server_error" -> Sym("Server", 0, 0, FALSE, "-")
    [] f = "invalid" -> Sym("Invalid", 0, 0, FALSE, "-") [] f = "syntax" -> Sym("Syntax", 0, 0, FALSE, "-")
    [] f = "unauthorized" -> Sym("Unauthorized", 0, 0, FALSE, "-") [] f = "unavailable" -> Sym("Unavailable", 1, 0, FALSE, "-")
    [] f = "read_timeout" -> Sym("ReadTimeout", 1, 1, FALSE, "-") [] f = "read_timeout_incomplete" -> Sym("ReadTimeout", 0, 1, FALSE, "-")
    [] f = "write_timeout_batchlog" -> Sym("WriteTimeout", 0, 0, FALSE, "BatchLog") [] f = "write_timeout_simple" -> Sym("WriteTimeout", 0, 0, FALSE, "Simple")
    [] f = "read_failure" -> Sym("ReadFailure", 0, 0, FALSE, "-") [] f = "write_failure" -> Sym("WriteFailure", 0, 0, FALSE, "-")
    [] f = "drop" -> Sym("Broken", 0, 0, FALSE, "-")
    [] f = "orphan_break" -> Sym("Broken", 0, 0, FALSE, "-")     \* the driver broke the connection itself (too many orphaned stream ids)
ClName(c) == CASE c = 0 -> "Any" [] c = 1 -> "One" [] c = 2 -> "Two" [] c = 3 -> "Three" [] c = 4 -> "Quorum" [] c = 5 -> "All"
               [] c = 6 -> "LocalQuorum" [] c = 7 -> "EachQuorum" [] c = 8 -> "Serial" [] c = 9 -> "LocalSerial" [] c = 10 -> "LocalOne"
PolName(p) == CASE p = "default" -> "Default" [] p = "downgrading" -> "Downgrading" [] p = "fallthrough" -> "Fallthrough"
SameBefore(fr, i) == Cardinality({j \in 1..(i - 1) : fr[j + 1].node = fr[j].node})
\* sequential retries (no speculative execution): every re-send is one the property allows
RetryOK(r) ==
  LET fr == r.frames  n == Len(fr) IN
  /\ n >= 1
  \* an answered request is not sent again; a failed one returns its failure
  /\ \A i \in 1..(n - 1) : fr[i].reply # "ok"
  /\ r.ok = (IF fr[n].reply = "ok" THEN 1 ELSE 0)
  \* attempts follow one another (the next frame leaves after the previous answer)
  /\ \A i \in 1..(n - 1) : fr[i + 1].t_in >= fr[i].t_out
  /\ \A i \in 1..(n - 1) :
       DecisionOK(PolName(r.policy), r.idem = 1, ClName(fr[i].cl), SymOfReply(fr[i].reply),
                  IF fr[i + 1].node = fr[i].node THEN "same" ELSE "next", SameBefore(fr, i))
\* the decision table itself (implementation-shaped: a departure is drift, not a violation)
RECURSIVE TableWalk(_, _, _, _, _)
TableWalk(r, i, fl, cl, left) ==       \* left: plan targets not yet used (3 nodes)
  LET fr == r.frames IN
  IF i > Len(fr) \/ fr[i].reply = "ok" THEN i = Len(fr)
  ELSE LET d == Decide(PolName(r.policy), fl, r.idem = 1, cl, SymOfReply(fr[i].reply)) IN
       IF d.d \in {"stop", "ignore"} \/ (d.d = "next" /\ left = 0) THEN i = Len(fr)
       ELSE /\ i < Len(fr)
            /\ (d.d = "same") = (fr[i + 1].node = fr[i].node)
            /\ LET ncl == IF d.cl = "keep" THEN cl ELSE d.cl IN
               ClName(fr[i + 1].cl) = ncl /\ TableWalk(r, i + 1, d.fl, ncl, IF d.d = "next" THEN left - 1 ELSE left)
TableOK(r) == Len(r.frames) >= 1 /\ TableWalk(r, 1, Fresh, ClName(r.frames[1].cl), 2)
\* speculative execution: idempotent-only, bounded, distinct targets, first decisive answer wins
Overlaps(fr, i, j) == i < j /\ fr[j].t_in < fr[i].t_out
Definitive(f) == f \in {"invalid", "syntax", "unauthorized"}          \* neither retried by a policy nor ignorable for speculation
SpecOK(r) ==
  LET fr == r.frames  n == Len(fr)
      dec == {i \in 1..n : fr[i].reply = "ok" \/ Definitive(fr[i].reply)} IN
  /\ n >= 1
  \* a request not marked idempotent is never in flight twice
  /\ (r.idem = 0 => \A i, j \in 1..n : ~Overlaps(fr, i, j))
  \* bounded: at most max executions besides the one a frame overlaps with ... i.e. never more than 1 + max in flight
  /\ \A j \in 1..n : Cardinality({i \in 1..n : Overlaps(fr, i, j)}) <= r.spec.max
  \* executions in flight together use different plan targets
  /\ \A i, j \in 1..n : Overlaps(fr, i, j) => fr[i].node # fr[j].node
  \* the caller gets the first decisive answer (the scripts keep competing answers >= 40 ms apart); without one, an error
  /\ IF dec = {} THEN r.ok = 0
     ELSE LET first == CHOOSE i \in dec : \A j \in dec : fr[i].t_out <= fr[j].t_out IN r.ok = (IF fr[first].reply = "ok" THEN 1 ELSE 0)
E2EOK(r) == r.start_err = "" /\ (IF r.spec.max = 0 THEN RetryOK(r) ELSE SpecOK(r))
=============================================================================
