----------------------------- MODULE MC_Sharding -----------------------------
(* Model checks the specification's own lemmas and generates the case table.   *)
EXTENDS Sharding, TLC, Json
CONSTANTS Ns, Msbs, TopBytes, Los, Widths
VARIABLE c
\* tokens with interesting top bytes (sign boundary, ring extremes) and fixed low bytes
Tok(hi, lo) == <<lo, 255 - lo, 17, 0, 255, 1, lo, hi>>
Init == \/ c \in [kind : {"shard"}, n : Ns, msb : Msbs, hi : TopBytes, lo : {0, 255, 77}]
        \/ c \in [kind : {"ports"}, n : Ns, lo : Los, w : Widths]
Next == UNCHANGED c
Spec == Init /\ [][Next]_c
\* lemma: the shard is below the shard count
ShardBelow == c.kind = "shard" => ShardOf(Tok(c.hi, c.lo), c.n, c.msb) < c.n
\* lemma: the ports of all shards partition the range
Partition == (c.kind = "ports" /\ c.n <= 64) =>
   LET hi == IF c.lo + c.w > 65535 THEN 65535 ELSE c.lo + c.w IN
   /\ UNION {Ports(c.lo, hi, c.n, s) : s \in 0..(c.n - 1)} = c.lo..hi
   /\ \A s, t \in 0..(c.n - 1) : s # t => Ports(c.lo, hi, c.n, s) \cap Ports(c.lo, hi, c.n, t) = {}
Emit == PrintT(<<"CASE", ToJson(IF c.kind = "shard"
                                THEN [kind |-> "shard", n |-> c.n, msb |-> c.msb, token |-> Tok(c.hi, c.lo),
                                      shard |-> ShardOf(Tok(c.hi, c.lo), c.n, c.msb)]
                                ELSE [kind |-> "ports", n |-> c.n, lo |-> c.lo,
                                      hi |-> IF c.lo + c.w > 65535 THEN 65535 ELSE c.lo + c.w])>>)
=============================================================================
