SPECIFICATION Spec
CONSTANTS
  MaxPush = 3
  MaxClear = 1
  MaxNoop = 1
  MaxRecv = 4
  MaxCancel = 2
  MaxTry = 1
  AllowSDrop = TRUE
  AllowRDrop = TRUE
  DropNotifyFirst = FALSE
  RecheckAfterFlag = TRUE
  EnableFirst = TRUE
  Atomic = FALSE
VIEW View
INVARIANTS TypeOK ExactlyOnceInOrder NoneOnlyAtEnd NoLostWakeup
PROPERTY Live
CHECK_DEADLOCK FALSE
