--------------------------- MODULE SerializedValues ---------------------------
(***************************************************************************)
(* C17 — the bound values of a request: a failed attempt to add a value    *)
(* leaves the already-bound values byte-for-byte and count-for-count what  *)
(* they were; the reported count always equals the number of cells.        *)
(* Judge of the per-operation records written by `vh-cql c17-rollback`.    *)
(***************************************************************************)
EXTENDS CqlValue, Integers, Json, IOUtils, TLC
Rec == ndJsonDeserialize(IOEnv.TRACE)
VARIABLES l, cells, count, buf, buflen, hist
tvars == <<l, cells, count, buf, buflen, hist>>
TraceInit == l = 1 /\ cells = << >> /\ count = 0 /\ buf = << >> /\ buflen = 0 /\ hist = -1 /\ TLCSet(1, 1)
MaxUnchecked == 8
Step ==
  /\ l <= Len(Rec)
  /\ LET r == Rec[l]
         fresh == r.h # hist
         c0 == IF fresh THEN << >> ELSE cells
         n0 == IF fresh THEN 0 ELSE count
         b0 == IF fresh THEN << >> ELSE buf
         bl0 == IF fresh THEN 0 ELSE buflen
     IN
     /\ r.iter_count = r.count                                     \* reported count = number of encoded cells
     /\ CASE r.op = "add" ->
               /\ r.ok = 1 /\ r.count = n0 + 1
               /\ r.buf_len = bl0 + Len(Cell(r.t, r.v))                \* exactly one cell appended
               /\ (bl0 <= 64 => SubSeq(r.buf, 1, bl0) = b0)
               /\ (r.count <= MaxUnchecked => r.cells = Append(c0, Cell(r.t, r.v)))
               /\ cells' = IF r.count <= MaxUnchecked THEN r.cells ELSE c0
          [] r.op \in {"mismatch", "nested_fail", "toolarge", "late_typeck"} ->
               /\ r.ok = 0                                            \* refused
               /\ r.count = n0 /\ r.buf_len = bl0 /\ r.buf = b0       \* and nothing changed
               /\ (r.count <= MaxUnchecked => r.cells = c0)
               /\ cells' = c0
          [] r.op = "fill" -> /\ r.ok = 1 /\ r.count = n0 + r.accepted /\ cells' = c0
          [] r.op = "toomany" ->
               /\ r.ok = 0 /\ r.count = 65535                        \* a [short] count cannot say more
               /\ r.buf_len = bl0 /\ r.buf = b0
               /\ cells' = c0
          [] OTHER -> FALSE
     /\ count' = r.count /\ buf' = r.buf /\ buflen' = r.buf_len /\ hist' = r.h
  /\ l' = l + 1
TraceSpec == TraceInit /\ [][Step]_tvars
Progress == TLCSet(1, IF l > TLCGet(1) THEN l ELSE TLCGet(1))
TraceAccepted == IF TLCGet(1) = Len(Rec) + 1 THEN TRUE
                 ELSE PrintT(<<"REJECTED at line", TLCGet(1)>>) /\ FALSE
=============================================================================
