--------------------------- MODULE Trace_RetryProp ---------------------------
(* Judge for C06: one line per call of RetrySession::decide_should_retry made  *)
(* while walking the tree of failure histories on the real sessions.           *)
(* Verdict: DecisionOK (RetryProp).  Drift (printed only): on a fresh session   *)
(* the decision equals the specification's table.                               *)
EXTENDS RetryProp, Json, IOUtils, TLC
Rec == ndJsonDeserialize(IOEnv.TRACE)
VARIABLE l
TraceInit == l = 1 /\ TLCSet(1, 1)
Good(r) ==
  /\ "panic" \notin DOMAIN r
  /\ r.d \in {"same", "next", "stop", "ignore"}
  /\ DecisionOK(r.pol, r.idem, r.cl, r.e, r.d, r.same)
  /\ IF r.depth = 1
     THEN LET o == Decide(r.pol, Fresh, r.idem, r.cl, r.e) IN
          IF o.d = r.d /\ o.cl = r.ncl THEN TRUE
          ELSE PrintT(<<"DRIFT", "first decision differs from the table", r.pol, r.idem, r.cl, r.e, r.d, r.ncl, o.d, o.cl>>)
     ELSE TRUE
TraceNext == l <= Len(Rec) /\ Good(Rec[l]) /\ l' = l + 1
TraceSpec == TraceInit /\ [][TraceNext]_l
Progress == TLCSet(1, IF l > TLCGet(1) THEN l ELSE TLCGet(1))
TraceAccepted == IF TLCGet(1) = Len(Rec) + 1 THEN TRUE
                 ELSE PrintT(<<"REJECTED at line", TLCGet(1)>>) /\ FALSE
=============================================================================
