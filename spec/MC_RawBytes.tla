----------------------------- MODULE MC_RawBytes -----------------------------
(* Samples for the raw-byte representations of varint / decimal (C01): every byte string of length 0..3 over an alphabet  *)
(* that contains the sign-extension bytes (0, 255), the sign boundaries (127, 128) and an ordinary byte - so redundant      *)
(* leading bytes, the zero-length string and all-zero strings are all there - plus two longer ones.                        *)
EXTENDS Naturals, Sequences, TLC, Json
Alphabet == {0, 1, 127, 128, 255}
VARIABLE c
Init == \/ \E n \in 0..3 : \E b \in [1..n -> Alphabet] : c = [b |-> b]
        \/ c \in {[b |-> <<0, 0, 0, 0, 0, 0, 0, 0, 1>>], [b |-> <<255, 255, 255, 255, 255, 255, 255, 255, 128, 0>>]}
Next == UNCHANGED c
Spec == Init /\ [][Next]_c
Emit == PrintT(<<"RAW", ToJson(c)>>)
=============================================================================
