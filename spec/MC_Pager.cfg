SPECIFICATION Spec
CONSTANTS Full = FALSE
INVARIANTS OrderedPrefix EndMeansAll ErrorAfterEarlier ReqsMonotone SummaryAgrees Bounded Emit
PROPERTIES Terminates
CHECK_DEADLOCK FALSE
