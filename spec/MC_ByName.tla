------------------------------ MODULE MC_ByName ------------------------------
(* Case generator for C16: for every struct of the family and both modes, the  *)
(* database-side layouts (all permutations; an extra field at every position   *)
(* of every permutation; every proper subset in both orders; two extras; wrong *)
(* and alternative types; a field replaced by a stranger), two value           *)
(* assignments, all null patterns on three layouts, UDT values that stop early.*)
EXTENDS ByName, TLC, Json
CONSTANTS Six          \* TRUE: additionally all 720 orders of 4 fields + 2 extras for Plain / Ordered
NT(n) == [k |-> "native", n |-> n]
NameNum(n) == CASE n = "a" -> 11 [] n = "b" -> 22 [] n = "c" -> 33 [] n = "d" -> 44 [] n = "bb" -> 22 [] n = "a2" -> 44
                [] n = "x" -> 99 [] n = "y" -> 77
ValT(num, t, vs) ==
  CASE t = "int" -> [k |-> "i", i |-> [neg |-> IF vs = 2 THEN 1 ELSE 0, mag |-> <<num>>]]
    [] t = "bigint" -> [k |-> "i", i |-> [neg |-> IF vs = 2 THEN 1 ELSE 0, mag |-> IF vs = 2 THEN <<num, 0, 0, 0, 1>> ELSE <<num, 1>>]]
    [] t \in {"text", "ascii"} -> [k |-> "s", b |-> IF vs = 2 THEN << >> ELSE <<48 + (num % 64), 122>>]
    [] t = "boolean" -> [k |-> "b", v |-> IF vs = 2 THEN 1 - (num % 2) ELSE num % 2]
X == [n |-> "x", t |-> NT("int")]
Y == [n |-> "y", t |-> NT("text")]
Base(s) == LET fs == Active(Struct(s, "udt", "ser")) IN [j \in 1..Len(fs) |-> [n |-> fs[j].n, t |-> NT(fs[j].t)]]
Perm(q) == {[i \in 1..Len(q) |-> q[p[i]]] : p \in Permutations(1..Len(q))}
Ins(q, p, e) == SubSeq(q, 1, p) \o <<e>> \o SubSeq(q, p + 1, Len(q))
RECURSIVE Pick(_, _, _)
Pick(q, M, i) == IF i > Len(q) THEN << >> ELSE (IF i \in M THEN <<q[i]>> ELSE << >>) \o Pick(q, M, i + 1)
WrongT(t) == CASE t = "int" -> "text" [] t = "text" -> "int" [] t = "bigint" -> "int" [] t = "boolean" -> "int"
DBs(s) ==
  LET b == Base(s) k == Len(b) IN
  Perm(b)
  \cup {Ins(q, p, X) : q \in Perm(b), p \in 0..k}
  \cup UNION {{Pick(b, M, 1), Rev(Pick(b, M, 1))} : M \in (SUBSET (1..k)) \ {1..k}}
  \cup {Ins(Ins(b, p, X), r, Y) : p \in 0..k, r \in 0..(k + 1)}
  \cup {[b EXCEPT ![i].t = NT(WrongT(b[i].t.n))] : i \in 1..k}
  \cup {[b EXCEPT ![i].t = NT("ascii")] : i \in {j \in 1..k : b[j].t.n = "text"}}
  \cup {[b EXCEPT ![i] = X] : i \in 1..k}
  \cup (IF Six /\ s \in {"Plain", "Ordered"} THEN Perm(b \o <<X, Y>>) ELSE {})
Modes(s) == IF s \in {"Flat", "Flat2"} THEN {"row"} ELSE IF s \in {"OrderedAM", "NameAM", "OrderedAMDN"} THEN {"udt"} ELSE {"udt", "row"}
VARIABLE c
Init ==
  \/ \E s \in Structs : \E m \in Modes(s) : \E db \in DBs(s) : c = [s |-> s, mode |-> m, db |-> db, vs |-> 1, mask |-> {}, wlen |-> Len(db)]
  \/ \E s \in Structs : \E m \in Modes(s) : \E db \in {Base(s), Rev(Base(s)), Ins(Base(s), 2, X)} : \E vs \in {1, 2} :
       \E mask \in SUBSET (1..Len(db)) : c = [s |-> s, mode |-> m, db |-> db, vs |-> vs, mask |-> mask, wlen |-> Len(db)]
  \/ \E s \in Structs \ {"Flat", "Flat2"} : \E db \in {Base(s), Ins(Base(s), 2, X)} : \E mask \in {{}, {1}} : \E wl \in 0..(Len(db) - 1) :
       c = [s |-> s, mode |-> "udt", db |-> db, vs |-> 1, mask |-> mask, wlen |-> wl]
  \* structs with fields that may be missing: every sub-layout (fields left out at every position) x every null pattern
  \/ \E s \in {"OrderedAM", "NameAM", "AllowMissing", "OrderedAMDN", "DefaultNull", "Opt"} : \E M \in SUBSET (1..Len(Base(s))) : \E mask \in SUBSET (1..Cardinality(M)) :
       c = [s |-> s, mode |-> "udt", db |-> Pick(Base(s), M, 1), vs |-> 1, mask |-> mask, wlen |-> Cardinality(M)]
Next == UNCHANGED c
Spec == Init /\ [][Next]_c
WV == [i \in 1..c.wlen |-> IF i \in c.mask THEN [k |-> "null"] ELSE ValT(NameNum(c.db[i].n), c.db[i].t.n, c.vs)]
Vals == LET fs == Struct(c.s, c.mode, "ser").fs
            v(j) == IF fs[j].opt /\ j \in c.mask THEN [k |-> "null"] ELSE ValT(NameNum(fs[j].r), fs[j].t, c.vs)
        IN [a |-> v(1), b |-> v(2), c |-> v(3), d |-> v(4)]
Emit == PrintT(<<"CASE", ToJson([s |-> c.s, mode |-> c.mode, db |-> c.db, vals |-> Vals, wvals |-> WV, wire |-> WireOf(c.db, WV)])>>)
\* lemma of the specification itself: for the full, exactly matching layout in any order, what serialization emits is what
\* deserialization reads back into the same struct (value -> bytes -> value is the identity)
RoundTrip ==
  (c.wlen = Len(c.db) /\ c.mask = {}) =>
    LET e == SerExp(c.s, c.mode, c.db, Vals) IN
    (e.ok = 1 /\ e.tail = 0 /\ c.s \notin {"Flat", "Flat2"} /\ Len(e.cells) = Len(Active(Struct(c.s, c.mode, "ser")))) =>   \* every field was sent
       LET d == DeExp(c.s, c.mode, c.db, WV) fs == Struct(c.s, c.mode, "de").fs IN
       /\ d.tc = 1 /\ d.ok = 1
       /\ Concat(e.cells) = WireOf(c.db, WV) => \A j \in 1..Len(fs) : fs[j].skip \/ NormV(d.val[j]) = NormV(Vals[fs[j].r])
=============================================================================
