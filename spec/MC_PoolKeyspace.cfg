SPECIFICATION Spec
CONSTANTS Conns = {c1, c2, c3}
Ks = {"ks1", "ks2"}
MaxUses = 3
MaxOpens = 3
GuardOnReady = TRUE
INVARIANTS RequestsInKeyspace PublishedInCurrent Settled
CHECK_DEADLOCK FALSE
