---------------------------- MODULE Trace_Replicas ----------------------------
(***************************************************************************)
(* Judge for C04.  One record = one ring + node attributes + strategy +    *)
(* whether the locator pre-computed that strategy, and a list of queries,  *)
(* each with what every view of the real ReplicaSet reported:              *)
(*   q, dc, len, iter, ordered, yes (nodes n for which choose_filtered(=n) *)
(*   returned n), no (nodes for which it returned nothing), endpoints      *)
(*   (ClusterState::get_token_endpoints, unrestricted queries only).       *)
(***************************************************************************)
EXTENDS Replicas, Json, IOUtils, TLC
Rec == ndJsonDeserialize(IOEnv.TRACE)
VARIABLE l
TraceInit == l = 1 /\ TLCSet(1, 1)

NoDup(s) == \A i, j \in 1..Len(s) : i # j => s[i] # s[j]
\* two nodes (of different datacenters) may own the same token: the walk "clockwise from the token" is then not defined between
\* them, and the ring-ordered view is only required to describe the same nodes (what C04 states)
HasDupPos(ring) == \E i, j \in 1..Len(ring) : i # j /\ ring[i][1] = ring[j][1]

QueryOK(r, x) ==
  S1(InDc(r.ring, r.attr, x.q, r.strat, x.dc), LAMBDA set :
    /\ x.len = Cardinality(set)                              \* size
    /\ SeqSet(x.iter) = set /\ NoDup(x.iter)                 \* iteration
    /\ SeqSet(x.ordered) = set /\ NoDup(x.ordered)           \* ring-ordered view: the same nodes,
    /\ (~HasDupPos(r.ring) => x.ordered = Ordered(r.ring, x.q, set))      \* clockwise from the token
    /\ SeqSet(x.yes) = set                                   \* random choice can produce exactly the members
    /\ SeqSet(x.no) \cap set = {}
    /\ SeqSet(x.chosen) \subseteq set /\ (set # {} => x.chosen # << >>)
    /\ (x.dc = "" /\ "endpoints" \in DOMAIN x) => (SeqSet(x.endpoints) = set /\ NoDup(x.endpoints)))

Good(r) == /\ "panic" \notin DOMAIN r
           /\ \A i \in 1..Len(r.queries) : QueryOK(r, r.queries[i])
TraceNext == l <= Len(Rec) /\ Good(Rec[l]) /\ l' = l + 1
TraceSpec == TraceInit /\ [][TraceNext]_l
Progress == TLCSet(1, IF l > TLCGet(1) THEN l ELSE TLCGet(1))
TraceAccepted == IF TLCGet(1) = Len(Rec) + 1 THEN TRUE
                 ELSE PrintT(<<"REJECTED at line", TLCGet(1)>>) /\ FALSE
=============================================================================
