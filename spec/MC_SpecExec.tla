----------------------------- MODULE MC_SpecExec -----------------------------
EXTENDS SpecExec, Json
GenSpec == Init /\ [][FALSE]_vars
Emit == PrintT(<<"SCEN", ToJson([m |-> M, iv |-> I, d |-> [i \in 1..(M+1) |-> D[i-1]], o |-> [i \in 1..(M+1) |-> O[i-1]]])>>)
=============================================================================
