------------------------- MODULE Trace_TimestampProp -------------------------
(* Property-level judge for C18: values handed out by ONE generator are       *)
(* pairwise distinct and strictly increasing along each thread's own calls.   *)
(* Events: TsRet(t, v) in real-time order of the returns; Reset = new generator*)
EXTENDS Naturals, Sequences, FiniteSets, Json, IOUtils, TLC
Rec == ndJsonDeserialize(IOEnv.TRACE)
VARIABLES l, handed, lastOut
tvars == <<l, handed, lastOut>>
TraceInit == l = 1 /\ handed = {} /\ lastOut = << >> /\ TLCSet(1, 1)
IsEvent(e) == l <= Len(Rec) /\ Rec[l].ev = e /\ l' = l + 1
Get(f, t) == IF t \in DOMAIN f THEN f[t] ELSE 0
TrRet == /\ IsEvent("TsRet")
         /\ LET t == Rec[l].t  v == Rec[l].v IN
            /\ v \notin handed                 \* pairwise distinct
            /\ v > Get(lastOut, t)             \* strictly increasing per thread
            /\ handed' = handed \cup {v}
            /\ lastOut' = [x \in DOMAIN lastOut \cup {t} |-> IF x = t THEN v ELSE lastOut[x]]
TrReset == IsEvent("Reset") /\ handed' = {} /\ lastOut' = << >>
TraceNext == TrRet \/ TrReset
TraceSpec == TraceInit /\ [][TraceNext]_tvars
Progress == TLCSet(1, IF l > TLCGet(1) THEN l ELSE TLCGet(1))
TraceAccepted == IF TLCGet(1) = Len(Rec) + 1 THEN TRUE
                 ELSE PrintT(<<"REJECTED at line", TLCGet(1), Rec[TLCGet(1)]>>) /\ FALSE
=============================================================================
