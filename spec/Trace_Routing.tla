---------------------------- MODULE Trace_Routing ----------------------------
(* Judge of `vh-driver c12 run` records, one per scenario (merged with the     *)
(* scenario and the TLC-computed key tokens by checks/c12.py): every execution *)
(* of the prepared INSERT must have sent its FIRST frame to a permitted,       *)
(* reachable replica of the key's token, on the owning shard (Routing.tla).    *)
EXTENDS Routing, Json, IOUtils, TLC
Rec == ndJsonDeserialize(IOEnv.TRACE)
VARIABLE l
StratOf(s) == IF s.class = "simple" THEN [kind |-> "simple", rf |-> s.rf]
              ELSE [kind |-> "nts", rfs |-> LET ds == {d \in {"dc1", "dc2", "dc3"} : d \in DOMAIN s.rf}
                                                RECURSIVE Sq(_)
                                                Sq(S) == IF S = {} THEN << >> ELSE LET d == CHOOSE x \in S : TRUE IN <<<<d, s.rf[d]>>>> \o Sq(S \ {d})
                                            IN Sq(ds)]
\* indices of the executions of round 1 that were misrouted (and therefore answered with the tablet): their tablets are known in round 2
Known(r, sc, i) == \E j \in 1..Len(r.execs) : /\ r.execs[j].round = 1 /\ r.execs[i].round = 2
                                              /\ TabletOf(sc, r.execs[j].token) = TabletOf(sc, r.execs[i].token)
                                              /\ Len(r.execs[j].frames) > 0 /\ Misrouted(sc, r.execs[j].token, r.execs[j].frames[1])
ExecOK(r, sc, i) ==
  LET e == r.execs[i] IN
  \* no frame at all only when the configuration permits no reachable node
  /\ (Len(e.frames) = 0 => Up(sc.nodes) \cap Permitted(sc) = {})
  /\ Len(e.frames) >= 1 =>
       IF r.has_tablets = 0 THEN VnodeOK(sc, r.conns, e.token, e.frames[1])
       ELSE (Known(r, sc, i) => TabletOK(sc, r.conns, e.token, e.frames[1]))
  \* the coordinator reported to the caller is where the successful attempt went
  /\ (e.ok = 1 /\ Len(e.frames) = 1 /\ e.coordinator.some = 1) => e.coordinator.node = e.frames[1].node /\ e.coordinator.shard = e.frames[1].shard
ScenOK(r) ==
  LET sc == [nodes |-> r.nodes, strat |-> StratOf(r.strategy), policy |-> r.policy, tablets |-> r.tablets] IN
  /\ r.start_err = ""
  /\ (r.pools_full = 1 \/ r.nat > 0)          \* (behind a NAT the pool may legitimately take longer than the wait to fill)
  /\ \A i \in 1..Len(r.execs) : ExecOK(r, sc, i)
TraceInit == l = 1 /\ TLCSet(1, 1)
TraceNext == l <= Len(Rec) /\ (IF ScenOK(Rec[l]) THEN TRUE ELSE PrintT(<<"BAD", l>>)) /\ l' = l + 1
TraceSpec == TraceInit /\ [][TraceNext]_l
Progress == TLCSet(1, IF l > TLCGet(1) THEN l ELSE TLCGet(1))
TraceAccepted == IF TLCGet(1) = Len(Rec) + 1 THEN TRUE ELSE PrintT(<<"REJECTED at line", TLCGet(1)>>) /\ FALSE
=============================================================================
