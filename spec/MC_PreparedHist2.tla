--------------------------- MODULE MC_PreparedHist2 ---------------------------
(* Second population of histories for C14's conformance run, grown step by    *)
(* step (so TLC's simulation mode draws random ones): executions through the   *)
(* handle Session::prepare gave (exec, exec_paged, batch) and through the      *)
(* CachingSession's own handle of the same text (cexec, cexec_paged), the      *)
(* server events of MC_PreparedHist between them, and - new - a server event   *)
(* BETWEEN THE TWO PAGES of a paged execution ("mid").                         *)
EXTENDS Naturals, Sequences, TLC, Json
CONSTANTS MaxSteps, MaxChanges
VARIABLES cf, only, steps, nchg, nops, fin
vars == <<cf, only, steps, nchg, nops, fin>>
Cfgs == {[ext |-> e, skip |-> s] : e \in {<<1, 1>>, <<0, 0>>, <<1, 0>>, <<0, 1>>}, s \in {0, 1}}
\* without the extension and with skip-metadata the protocol cannot announce new columns to a handle whose statement stays prepared
\* on the node it asks: neither after a plain ALTER, nor to the SECOND handle of a text once the first one has re-prepared it
Blind(c) == c.skip = 1 /\ c.ext # <<1, 1>>
Init == /\ cf \in Cfgs /\ only \in {"p", "c", "any"} /\ (Blind(cf) <=> only # "any")
        /\ steps = << >> /\ nchg = 0 /\ nops = 0 /\ fin = FALSE
Changes(e) == e.ev \in {"alter", "alter_evict", "rename_evict"}
Evs == {[ev |-> "evict", node |-> 0], [ev |-> "evict", node |-> 1], [ev |-> "alter"], [ev |-> "alter_evict"], [ev |-> "rename_evict"]}
OkEv(e) == ~(e.ev = "alter" /\ Blind(cf)) /\ (Changes(e) => nchg < MaxChanges)
Can == ~fin /\ Len(steps) < MaxSteps
Event(e) == /\ Can /\ OkEv(e) /\ steps # << >> /\ "op" \in DOMAIN steps[Len(steps)]
            /\ steps' = Append(steps, e) /\ nchg' = nchg + (IF Changes(e) THEN 1 ELSE 0) /\ UNCHANGED <<cf, only, nops, fin>>
IdChange == /\ Can /\ steps # << >> /\ "op" \in DOMAIN steps[Len(steps)]
            /\ steps' = Append(steps, [ev |-> "idchange", node |-> 0]) /\ UNCHANGED <<cf, only, nchg, nops, fin>>
Kind(o) == IF o \in {"cexec", "cexec_paged"} THEN "c" ELSE "p"
Plain(o, n) == /\ Can /\ o \in {"exec", "cexec", "batch"} /\ (only = "any" \/ o = "batch" \/ Kind(o) = only)
               /\ steps' = Append(steps, [op |-> o, node |-> n, pk |-> nops + 1]) /\ nops' = nops + 1 /\ UNCHANGED <<cf, only, nchg, fin>>
Paged(o, n) == /\ Can /\ o \in {"exec_paged", "cexec_paged"} /\ (only = "any" \/ Kind(o) = only)
               /\ steps' = Append(steps, [op |-> o, node |-> n, pk |-> nops + 1]) /\ nops' = nops + 1 /\ UNCHANGED <<cf, only, nchg, fin>>
PagedMid(o, n, e) == /\ Can /\ o \in {"exec_paged", "cexec_paged"} /\ (only = "any" \/ Kind(o) = only) /\ OkEv(e)
                     /\ steps' = Append(steps, [op |-> o, node |-> n, pk |-> nops + 1, mid |-> e]) /\ nops' = nops + 1
                     /\ nchg' = nchg + (IF Changes(e) THEN 1 ELSE 0) /\ UNCHANGED <<cf, only, fin>>
\* two executions at once, one forced to each node (only where both nodes support the same extensions: which of two different
\* announcements the shared handle holds in between is then not a question)
Both == /\ Can /\ cf.ext \in {<<1, 1>>, <<0, 0>>} /\ only \in {"any", "p"}
        /\ steps' = Append(steps, [op |-> "exec2", pk |-> nops + 1]) /\ nops' = nops + 2 /\ UNCHANGED <<cf, only, nchg, fin>>
End == /\ ~fin /\ nops >= 2 /\ "op" \in DOMAIN steps[Len(steps)] /\ fin' = TRUE /\ UNCHANGED <<cf, only, steps, nchg, nops>>
Next == \/ End \/ IdChange \/ Both
        \/ \E e \in Evs : Event(e)
        \/ \E n \in {0, 1} : \/ \E o \in {"exec", "cexec", "batch"} : Plain(o, n)
                             \/ \E o \in {"exec_paged", "cexec_paged"} : Paged(o, n) \/ \E e \in Evs : PagedMid(o, n, e)
Spec == Init /\ [][Next]_vars
Emit == fin => PrintT(<<"HIST", ToJson([ext |-> cf.ext, skip |-> cf.skip, steps |-> steps])>>)
=============================================================================
