-------------------------- MODULE Trace_MergeStress --------------------------
(* Judge for free-running stress records of the merge channel: the values     *)
(* received, concatenated, are exactly the updates merged, in order, and the  *)
(* run terminated (the consumer was told None after the last value).          *)
EXTENDS Naturals, Sequences, Json, IOUtils, TLC
Rec == ndJsonDeserialize(IOEnv.TRACE)
VARIABLE l
Flat(ss) == LET F[i \in 0..Len(ss)] == IF i = 0 THEN << >> ELSE F[i-1] \o ss[i] IN F[Len(ss)]
Good(r) == /\ r.hang = 0
           /\ Flat(r.got) = [i \in 1..r.n |-> i]
           /\ \A i \in 1..Len(r.got) : r.got[i] # << >>
TraceInit == l = 1 /\ TLCSet(1, 1)
TraceNext == l <= Len(Rec) /\ Good(Rec[l]) /\ l' = l + 1
TraceSpec == TraceInit /\ [][TraceNext]_l
Progress == TLCSet(1, IF l > TLCGet(1) THEN l ELSE TLCGet(1))
TraceAccepted == IF TLCGet(1) = Len(Rec) + 1 THEN TRUE
                 ELSE PrintT(<<"REJECTED at line", TLCGet(1), Rec[TLCGet(1)]>>) /\ FALSE
=============================================================================
