-------------------------- MODULE MC_MetadataUpdate --------------------------
(* All sequences of up to MaxLen merge / take operations over a small alphabet; *)
(* TLC checks the specification's own lemma (the taken peers are the latest     *)
(* topology merged) and prints every sequence for the conformance harness.      *)
EXTENDS MetadataUpdate, TLC, Json
CONSTANTS MaxLen
Alphabet == {[op |-> "full", peers |-> <<1, 2>>, refresh |-> 0], [op |-> "full", peers |-> <<1, 2, 3>>, refresh |-> 1], [op |-> "topo", peers |-> <<2, 3>>],
             [op |-> "topo", peers |-> <<1>>], [op |-> "up", n |-> 1], [op |-> "down", n |-> 1], [op |-> "down", n |-> 2], [op |-> "take"]}
VARIABLE c
Init == \E n \in 1..MaxLen : c \in [1..n -> Alphabet]
Next == UNCHANGED c
Spec == Init /\ [][Next]_c
TakeIdx == {i \in 1..Len(c) : c[i].op = "take"} \cup {Len(c) + 1}
Lemma == LET exp == Expected(c) IN
  /\ Len(exp) = Cardinality(TakeIdx)
  /\ \A k \in 1..Len(exp) :
       LET ends == SortHints({<<i, 0>> : i \in TakeIdx})
           to == ends[k][1] - 1
           from == IF k = 1 THEN 1 ELSE ends[k - 1][1] + 1
           refreshes == Cardinality({i \in from..to : c[i].op = "full" /\ c[i].refresh = 1}) IN
       /\ exp[k].peers = LastTopology(c, from, to)            \* the latest fetched topology
       /\ exp[k].refresh = refreshes                          \* no refresh request is lost
Emit == PrintT(<<"SEQ", ToJson([ops |-> c])>>)
=============================================================================
