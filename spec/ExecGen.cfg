SPECIFICATION Spec
CONSTANTS MaxPlan = 3
INVARIANTS Emit
CHECK_DEADLOCK FALSE
