--------------------------- MODULE Trace_Prepared ---------------------------
(***************************************************************************)
(* C14 — trace validation of `vh-driver c14 run` logs (flattened to one    *)
(* event per line by checks/c14.py) against the server model of            *)
(* PreparedProp.tla and the client's obligations:                          *)
(*  * every reply the mock gave is the model's reply (the harness's server *)
(*    is the specification's server);                                      *)
(*  * EXECUTE / BATCH always carry the statement's own id, the key bound   *)
(*    by the caller, the metadata id most recently announced (or an empty  *)
(*    one when none is known), never an id a node newly made up;           *)
(*  * UNPREPARED is followed by a PREPARE of that statement on that node   *)
(*    and, if the id is the same, by the same request again;               *)
(*  * the caller gets exactly the rows the node encoded, all columns of    *)
(*    the schema version they were served at, or the id-changed error.     *)
(* Two handles of the same SELECT exist: the one `Session::prepare` gave    *)
(* ("p") and the one the CachingSession keeps for the same text ("c", made *)
(* by the first cached execution); each has its own view of the announced  *)
(* columns / metadata id.  A server event may also happen between the two  *)
(* pages of a paged execution (it is logged between the frames).           *)
(* Bad histories are printed (<<"BAD", history id, line, what>>), the      *)
(* rest of the input is still judged.                                      *)
(***************************************************************************)
EXTENDS PreparedProp, Json, IOUtils, TLC
Rec == ndJsonDeserialize(IOEnv.TRACE)
VARIABLES l,
          ext, skipopt, ver, lay, prep, salt,     \* server model (lay: the column layout, PreparedProp.Layout0); prep[n] = set of statements ("select","insert") prepared under OUR id
          base,                              \* [select |-> id, insert |-> id] learned from the setup
          cols, mids,                        \* per handle ("p", "c"): announced column layout; set of metadata ids it may hold
          cached,                            \* the CachingSession holds its handle of the SELECT
          snap,                              \* mids when a pair of simultaneous executions began (the second one's first request was sent then)
          op,                                \* current operation [op, hd (handle), node, pk, frames seen, EXECUTEs seen, pend, pages, failed]
          bad                                \* the current history was already reported
vars == <<l, ext, skipopt, ver, lay, prep, salt, base, cols, mids, cached, snap, op, bad>>

Idle == [op |-> "idle", pair |-> 0, hd |-> "p", node |-> 0, pk |-> 0, n |-> 0, ne |-> 0, pend |-> <<0, "none">>, pages |-> << >>, failed |-> 0, first |-> << >>]
NoLayout == [extra |-> 99, bgen |-> 99]
NoBase == [select |-> << >>, insert |-> << >>, insert2 |-> << >>]
TraceInit == /\ l = 1 /\ ext = <<0, 0>> /\ skipopt = 0 /\ ver = 1 /\ lay = Layout0 /\ prep = <<{}, {}>> /\ salt = <<0, 0>>
             /\ base = NoBase /\ cols = [p |-> NoLayout, c |-> NoLayout] /\ mids = [p |-> {}, c |-> {}] /\ cached = FALSE /\ snap = [p |-> {}, c |-> {}] /\ op = Idle /\ bad = FALSE /\ TLCSet(1, 1)

Report(what) == IF bad THEN TRUE ELSE PrintT(<<"BAD", Rec[l].h, l, what>>)
\* judge a condition: a failure marks the history bad (reported once), the walk continues
Chk(c, what) == IF c THEN bad' = bad ELSE Report(what) /\ bad' = TRUE

Reset(e) == /\ ext' = e.ext /\ skipopt' = e.skip /\ ver' = 1 /\ lay' = Layout0 /\ prep' = <<{}, {}>> /\ salt' = <<0, 0>>
            /\ base' = NoBase /\ cols' = [p |-> NoLayout, c |-> NoLayout] /\ mids' = [p |-> {}, c |-> {}] /\ cached' = FALSE /\ snap' = [p |-> {}, c |-> {}] /\ op' = Idle /\ bad' = FALSE

Event(e) ==
  /\ CASE e.ev = "evict" -> prep' = [prep EXCEPT ![e.node + 1] = {}] /\ UNCHANGED <<ver, lay, salt>>
       [] e.ev = "alter" -> ver' = ver + 1 /\ lay' = [lay EXCEPT !.extra = @ + 1] /\ UNCHANGED <<prep, salt>>
       [] e.ev = "alter_evict" -> ver' = ver + 1 /\ lay' = [lay EXCEPT !.extra = @ + 1] /\ prep' = <<{}, {}>> /\ UNCHANGED salt
       [] e.ev = "rename_evict" -> ver' = ver + 1 /\ lay' = [lay EXCEPT !.bgen = ver + 1] /\ prep' = <<{}, {}>> /\ UNCHANGED salt
       [] e.ev = "idchange" -> salt' = [salt EXCEPT ![e.node + 1] = 1] /\ prep' = [prep EXCEPT ![e.node + 1] = {}] /\ UNCHANGED <<ver, lay>>
  /\ UNCHANGED <<ext, skipopt, base, cols, mids, cached, snap, op, bad>>

\* e.pair: 0 an execution on its own; 1 / 2 the members of a pair issued at once (one per node), judged one after the other
BeginOp(e) == /\ op' = [Idle EXCEPT !.op = e.op, !.pair = e.pair, !.hd = e.hd, !.node = e.node + 1, !.pk = e.pk]
              /\ snap' = IF e.pair = 1 THEN mids ELSE snap
              /\ UNCHANGED <<ext, skipopt, ver, lay, prep, salt, base, cols, mids, cached, bad>>

\* ------------------------------------------------------------------ frames
Prepare(f, n) ==
  LET s == f.stmt
      ours == salt[n] = 0
      known == base[s] # << >>
      \* the first cached execution prepares the statement (on every node) before it executes anything
      making == op.op # "idle" /\ op.hd = "c" /\ ~cached /\ op.ne = 0 /\ op.pend[2] = "none" /\ s = "select"
      initial == op.op = "idle" \/ making
      hd == op.hd IN
  /\ Chk(/\ f.reply = "prepared"
         /\ (known => (f.reply_id = base[s]) = ours)                                       \* the model's id
         /\ f.reply_mid = (IF ext[n] = 1 THEN Some(Mid(ver)) ELSE None)
         /\ f.reply_ncols = (IF s # "select" THEN 0 ELSE IF ours THEN 2 + lay.extra ELSE 1)   \* (the other statement of an id-changing node has one column)
         \* a PREPARE inside an execution only to re-prepare what that node reported unprepared
         /\ (op.op \in {"exec", "exec_paged", "batch"} => making \/ op.pend = <<n, s>>),
         "prepare frame")
  /\ base' = IF known THEN base ELSE [base EXCEPT ![s] = f.reply_id]
  /\ prep' = IF ours \/ ~known THEN [prep EXCEPT ![n] = @ \cup {s}] ELSE prep
  \* what the statement's preparation announces: the columns; with the extension also the id
  /\ IF s = "select" /\ (ours \/ ~known)
     THEN /\ cols' = [cols EXCEPT ![hd] = lay]
          /\ mids' = [mids EXCEPT ![hd] =
                        IF initial THEN @ \cup (IF ext[n] = 1 THEN {Mid(ver)} ELSE {<< >>})     \* a fresh handle: whichever answer it kept
                        ELSE IF ext[n] = 1 THEN {Mid(ver)} ELSE @ \cup {<< >>}]      \* announced without an id: the old id or none may be presented (the server corrects either)
     ELSE UNCHANGED <<cols, mids>>
  /\ op' = IF op.op = "idle" THEN op
           ELSE IF making THEN [op EXCEPT !.n = @ + 1]
           ELSE [op EXCEPT !.n = @ + 1, !.pend = IF ours THEN <<n, "again">> ELSE <<0, "none">>, !.failed = IF ours THEN @ ELSE 1]
  /\ UNCHANGED <<ext, skipopt, ver, lay, salt, cached, snap>>

Execute(f, n) ==
  LET s == f.stmt
      reply == IF s = "select" THEN ExecReply(ext[n], ver, s \in prep[n], f.rmid, f.eskip)     \* eskip: the flag as the node honours it (0 on nodes that ignore it)
               ELSE IF s \in prep[n] THEN "void" ELSE "unprepared"
      firstOfOp == op.ne = 0
      hd == op.hd IN
  /\ Chk(/\ op.op \in {"exec", "exec_paged"} /\ s = "select" /\ op.failed = 0
         /\ (hd = "c" /\ ~cached => salt = <<0, 0>>)                                          \* a handle that could not be made executes nothing
         /\ f.id = base.select                                                              \* never an id a node made up
         /\ f.values = <<PkBytes(op.pk)>>
         /\ (firstOfOp => n = op.node)
         /\ (ext[n] = 0 => f.rmid = None)
         /\ (ext[n] = 1 => f.rmid.some = 1 /\ (f.rmid.v \in mids[hd] \/ (f.rmid.v = << >> /\ mids[hd] \subseteq {<< >>})
                                                          \/ (op.pair = 2 /\ firstOfOp /\ f.rmid.v \in snap[hd])))
         /\ (op.pend[2] # "none" => op.pend = <<n, "again">> /\ f.paging = op.first.paging)     \* the same request again, after the re-preparation
         /\ f.reply = reply
         /\ (reply = "unprepared" => f.reply_id = f.id)
         /\ (reply = "rows_meta_newid" => f.reply_mid = Some(Mid(ver)) /\ f.reply_ncols = 2 + lay.extra),
         "execute frame")
  /\ IF reply = "rows_meta_newid" THEN cols' = [cols EXCEPT ![hd] = lay] /\ mids' = [mids EXCEPT ![hd] = {Mid(ver)}] ELSE UNCHANGED <<cols, mids>>
  /\ op' = [op EXCEPT !.n = @ + 1, !.ne = @ + 1,
                      !.pend = IF reply = "unprepared" THEN <<n, s>> ELSE <<0, "none">>,
                      !.first = IF op.pend[2] = "none" THEN [paging |-> f.paging] ELSE @,
                      \* a page of rows: [paging state it answers, columns it must be decoded with]
                      !.pages = IF reply \in {"rows_meta", "rows_meta_newid"} THEN Append(@, [paging |-> f.paging, ncols |-> lay, true |-> lay, ver |-> ver])
                                ELSE IF reply = "rows_nometa" THEN Append(@, [paging |-> f.paging, ncols |-> cols[hd], true |-> lay, ver |-> ver])
                                ELSE @]
  /\ UNCHANGED <<ext, skipopt, ver, lay, prep, salt, base, cached, snap>>

Batch(f, n) ==
  LET missing == IF "insert" \notin prep[n] THEN "insert" ELSE IF "insert2" \notin prep[n] THEN "insert2" ELSE "none"
      reply == IF missing = "none" THEN "void" ELSE "unprepared" IN
  /\ Chk(/\ op.op = "batch" /\ op.failed = 0
         /\ f.id = <<base.insert, base.insert2>>
         /\ f.values = <<PkBytes(op.pk), PkBytes(op.pk + 1)>>
         /\ (op.n = 0 => n = op.node)
         /\ (op.pend[2] # "none" => op.pend = <<n, "again">>)
         /\ f.reply = reply /\ (reply = "unprepared" => f.reply_id = base[missing]),
         "batch frame")
  /\ op' = [op EXCEPT !.n = @ + 1, !.pend = IF reply = "unprepared" THEN <<n, missing>> ELSE <<0, "none">>,
                      !.pages = IF reply = "void" THEN Append(@, [paging |-> None, ncols |-> lay, true |-> lay, ver |-> ver]) ELSE @]
  /\ UNCHANGED <<ext, skipopt, ver, lay, prep, salt, base, cols, mids, cached, snap>>

Frame(f) == LET n == f.node + 1 IN
  CASE f.opcode = 9 -> Prepare(f, n) [] f.opcode = 10 -> Execute(f, n) [] f.opcode = 13 -> Batch(f, n)

\* ------------------------------------------------------------------ results
\* a page holds the rows of the schema version it was served at
PageRows(p, pk) == IF op.op = "exec" THEN RowsOf(p.ver, p.true, pk)
                   ELSE IF p.paging = None THEN <<RowOf(p.ver, p.true, pk, 0)>> ELSE <<RowOf(p.ver, p.true, pk, 1)>>
RECURSIVE Cat(_)
Cat(ss) == IF ss = << >> THEN << >> ELSE Head(ss) \o Cat(Tail(ss))
Result(r) ==
  /\ Chk(CASE op.op \in {"exec", "exec_paged"} ->
                IF op.hd = "c" /\ ~cached /\ salt # <<0, 0>> THEN r.ok = 0 /\ op.ne = 0      \* the nodes disagree on the id: no handle, nothing executed
                ELSE IF op.failed = 1 THEN r.ok = 0 /\ r.kind = "reprepared_id_changed" /\ op.pend[2] = "none"
                ELSE /\ r.ok = 1
                     /\ Len(op.pages) = (IF op.op = "exec" THEN 1 ELSE 2)
                     \* decoded with the metadata of the frame, or with the one announced to the client: both must be the true one
                     /\ \A i \in 1..Len(op.pages) : op.pages[i].ncols = op.pages[i].true
                     /\ r.cols = ColNames(op.pages[1].true)          \* (a paged result reports the columns of its first page)
                     /\ r.rows = Cat([i \in 1..Len(op.pages) |-> PageRows(op.pages[i], op.pk)])
            [] op.op = "batch" -> IF op.failed = 1 THEN r.ok = 0 /\ r.kind = "reprepared_id_changed" ELSE r.ok = 1 /\ Len(op.pages) = 1
            [] op.op = "prepare" -> r.ok = (IF salt = <<0, 0>> THEN 1 ELSE 0),
         "result")
  /\ op' = Idle
  /\ cached' = (cached \/ (op.hd = "c" /\ op.ne > 0))
  /\ UNCHANGED <<ext, skipopt, ver, lay, prep, salt, base, cols, mids, snap>>

Step(e) == CASE e.t = "reset" -> Reset(e) [] e.t = "ev" -> Event(e) [] e.t = "op" -> BeginOp(e)
             [] e.t = "frame" -> Frame(e) [] e.t = "result" -> Result(e)
TraceNext == l <= Len(Rec) /\ Step(Rec[l]) /\ l' = l + 1
TraceSpec == TraceInit /\ [][TraceNext]_vars
Progress == TLCSet(1, IF l > TLCGet(1) THEN l ELSE TLCGet(1))
TraceAccepted == IF TLCGet(1) = Len(Rec) + 1 THEN TRUE ELSE PrintT(<<"REJECTED at line", TLCGet(1)>>) /\ FALSE
=============================================================================
