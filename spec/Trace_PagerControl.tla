------------------------- MODULE Trace_PagerControl -------------------------
(* C07, control-connection pager: whatever page size the server uses for the *)
(* system tables, the metadata the session ends up with contains every node, *)
(* keyspace and table exactly once (records of `vh-driver c07-control`).     *)
EXTENDS Naturals, Sequences, FiniteSets, Json, IOUtils, TLC
Rec == ndJsonDeserialize(IOEnv.TRACE)
VARIABLE l
NoDup(s) == \A i, j \in 1..Len(s) : i # j => s[i] # s[j]
KsName(i) == CASE i = 0 -> "ks0" [] i = 1 -> "ks1" [] i = 2 -> "ks2" [] i = 3 -> "ks3"
TbName(i) == CASE i = 0 -> "t0" [] i = 1 -> "t1" [] i = 2 -> "t2"
ControlOK(r) ==
  /\ r.start_err = ""
  /\ r.seen_nodes = r.expected_nodes /\ Len(r.seen_nodes) = r.nodes /\ NoDup(r.seen_nodes)
  /\ LET ks == r.seen_keyspaces IN
     /\ (r.keyspaces = 0 => ks = "none")
     /\ (r.keyspaces > 0 => /\ DOMAIN ks = {KsName(i) : i \in 0..(r.keyspaces - 1)}
                            /\ \A k \in DOMAIN ks : ks[k] = [i \in 1..r.tables |-> TbName(i - 1)])
  \* the scenario really paged: with p rows per page and more than p rows somewhere, pages were continued
  /\ (r.sys_page > 0 /\ r.nodes - 1 > r.sys_page => r.system_pages > 0)
TraceInit == l = 1 /\ TLCSet(1, 1)
TraceNext == l <= Len(Rec) /\ (IF ControlOK(Rec[l]) THEN TRUE ELSE PrintT(<<"BAD", l>>)) /\ l' = l + 1
TraceSpec == TraceInit /\ [][TraceNext]_l
Progress == TLCSet(1, IF l > TLCGet(1) THEN l ELSE TLCGet(1))
TraceAccepted == IF TLCGet(1) = Len(Rec) + 1 THEN TRUE ELSE PrintT(<<"REJECTED at line", TLCGet(1)>>) /\ FALSE
=============================================================================
