------------------------------ MODULE RouterGen ------------------------------
(* Generator of caller/server schedules for the real router (C02, C10):       *)
(* S r submit, C r cancel (any stage), R r server answers r (any order, only   *)
(* if it holds the frame), Y let the router run until idle, and optionally a   *)
(* final fault F.  Cancellation stages arise from the position of Y:           *)
(* S,C (queued, never polled by the writer) - S,Y,C (written) - S,Y,R,C (the   *)
(* response is in flight / routed but the caller has not been polled).         *)
EXTENDS Naturals, Sequences, TLC, Json
CONSTANTS R, MaxLen, Faults
VARIABLES st, ans, nsub, ops, fin
vars == <<st, ans, nsub, ops, fin>>
Init == st = [r \in 1..R |-> "none"] /\ ans = {} /\ nsub = 0 /\ ops = << >> /\ fin = FALSE
Can == ~fin /\ Len(ops) < MaxLen
S == /\ Can /\ nsub < R /\ nsub' = nsub + 1 /\ st' = [st EXCEPT ![nsub + 1] = "sub"]
     /\ ops' = Append(ops, <<"S", nsub + 1>>) /\ UNCHANGED <<ans, fin>>
C(r) == /\ Can /\ st[r] = "sub" /\ st' = [st EXCEPT ![r] = "cancelled"]
        /\ ops' = Append(ops, <<"C", r>>) /\ UNCHANGED <<ans, nsub, fin>>
Rs(r) == /\ Can /\ st[r] # "none" /\ r \notin ans /\ ans' = ans \cup {r}
         /\ ops' = Append(ops, <<"R", r>>) /\ UNCHANGED <<st, nsub, fin>>
Y == /\ Can /\ ops # << >> /\ ops[Len(ops)][1] # "Y"
     /\ ops' = Append(ops, <<"Y", 0>>) /\ UNCHANGED <<st, ans, nsub, fin>>
F(k) == /\ ~fin /\ ops # << >> /\ fin' = TRUE /\ ops' = Append(ops, <<"F", k>>) /\ UNCHANGED <<st, ans, nsub>>
End == /\ ~fin /\ Faults = {} /\ Len(ops) >= 2 /\ fin' = TRUE /\ UNCHANGED <<st, ans, nsub, ops>>
Next == S \/ Y \/ End \/ (\E r \in 1..R : C(r) \/ Rs(r)) \/ (\E k \in Faults : F(k))
Spec == Init /\ [][Next]_vars
Emit == fin => PrintT(<<"REPLAY", ToJson(ops)>>)
=============================================================================
