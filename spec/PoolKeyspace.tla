---------------------------- MODULE PoolKeyspace ----------------------------
(***************************************************************************)
(* C20 — design model of one node's connection pool (network/              *)
(* connection_pool.rs PoolRefiller, a single-task event loop) with respect *)
(* to the session keyspace:                                                *)
(*   Use(k)      the refiller takes a use-keyspace request: current := k,  *)
(*               USE k is sent on every PUBLISHED connection; the call     *)
(*               returns when all of them have answered                    *)
(*   Open / Ready / SetupAck   a new connection (refill, reconnect) is not *)
(*               published before its keyspace equals `current`: it is     *)
(*               sent through keyspace setup as often as `current` moved   *)
(*   Kill        a connection dies                                         *)
(*   Request     a caller picks any published connection                   *)
(* Checked: a published connection is in the pool's current keyspace       *)
(* unless a USE of a call still in flight is pending on it; hence after a  *)
(* call returned (and none is in flight) every request runs in it.         *)
(***************************************************************************)
EXTENDS Naturals, FiniteSets, Sequences, TLC
CONSTANTS Conns, Ks, MaxUses, MaxOpens,
          GuardOnReady     \* TRUE: as implemented; FALSE (negative control): a ready connection is published without the keyspace check
VARIABLES cur,        \* the pool's current keyspace ("none" | k)
          st, ks,     \* per connection: "free" | "opening" | "setup" | "pub" | "dead" ; acknowledged keyspace
          target,     \* per connection in setup: the keyspace its USE asks for
          pending,    \* per connection: sequence of keyspaces of USEs sent by use calls and not yet answered (FIFO on the wire)
          calls,      \* sequence of use calls: [ks, waiting (set of connections), done]
          opens, lastreq
vars == <<cur, st, ks, target, pending, calls, opens, lastreq>>
Init == /\ cur = "none" /\ st = [c \in Conns |-> "free"] /\ ks = [c \in Conns |-> "none"] /\ target = [c \in Conns |-> "none"]
        /\ pending = [c \in Conns |-> << >>] /\ calls = << >> /\ opens = 0 /\ lastreq = [c |-> CHOOSE x \in Conns : TRUE, ks |-> "none", ok |-> TRUE]
Published == {c \in Conns : st[c] = "pub"}
InFlight == {i \in 1..Len(calls) : ~calls[i].done}
Open(c) == /\ st[c] = "free" /\ opens < MaxOpens /\ opens' = opens + 1 /\ st' = [st EXCEPT ![c] = "opening"]
           /\ UNCHANGED <<cur, ks, target, pending, calls, lastreq>>
\* handle_ready_connection: publish only if the connection's keyspace is the current one, else (re)start the setup
Ready(c) == /\ st[c] = "opening"
            /\ IF GuardOnReady /\ cur # "none" /\ ks[c] # cur THEN st' = [st EXCEPT ![c] = "setup"] /\ target' = [target EXCEPT ![c] = cur]
               ELSE st' = [st EXCEPT ![c] = "pub"] /\ UNCHANGED target
            /\ UNCHANGED <<cur, ks, pending, calls, opens, lastreq>>
SetupAck(c) == /\ st[c] = "setup" /\ ks' = [ks EXCEPT ![c] = target[c]] /\ st' = [st EXCEPT ![c] = "opening"]      \* travels through Ready again
               /\ UNCHANGED <<cur, target, pending, calls, opens, lastreq>>
Use(k) == /\ Len(calls) < MaxUses /\ cur' = k
          /\ pending' = [c \in Conns |-> IF c \in Published THEN Append(pending[c], k) ELSE pending[c]]
          /\ calls' = Append(calls, [ks |-> k, waiting |-> Published, done |-> Published = {}])
          /\ UNCHANGED <<st, ks, target, opens, lastreq>>
UseAck(c) == /\ st[c] = "pub" /\ pending[c] # << >>
             /\ ks' = [ks EXCEPT ![c] = Head(pending[c])] /\ pending' = [pending EXCEPT ![c] = Tail(@)]
             /\ LET i == CHOOSE j \in 1..Len(calls) : c \in calls[j].waiting /\ \A h \in 1..(j - 1) : c \notin calls[h].waiting IN
                calls' = [calls EXCEPT ![i].waiting = @ \ {c}, ![i].done = (calls[i].waiting \ {c}) = {}]
             /\ UNCHANGED <<cur, st, target, opens, lastreq>>
Kill(c) == /\ st[c] \in {"opening", "setup", "pub"} /\ st' = [st EXCEPT ![c] = "dead"] /\ pending' = [pending EXCEPT ![c] = << >>]
           /\ calls' = [i \in 1..Len(calls) |-> [calls[i] EXCEPT !.waiting = @ \ {c}, !.done = (calls[i].waiting \ {c}) = {}]]
           /\ UNCHANGED <<cur, ks, target, opens, lastreq>>
\* a request on a published connection: fine iff its keyspace is the current one or belongs to a call still in flight
Request(c) == /\ st[c] = "pub"
              /\ lastreq' = [c |-> c, ks |-> ks[c], ok |-> (ks[c] = cur \/ \E i \in InFlight : c \in calls[i].waiting)]
              /\ UNCHANGED <<cur, st, ks, target, pending, calls, opens>>
Next == \E c \in Conns : Open(c) \/ Ready(c) \/ SetupAck(c) \/ UseAck(c) \/ Kill(c) \/ Request(c) \/ \E k \in Ks : Use(k)
Spec == Init /\ [][Next]_vars
RequestsInKeyspace == lastreq.ok
PublishedInCurrent == \A c \in Published : ks[c] = cur \/ pending[c] # << >>
\* once the latest call has returned and nothing is in flight, every published connection is in its keyspace
Settled == (InFlight = {} /\ Len(calls) > 0) => \A c \in Published : ks[c] = calls[Len(calls)].ks
=============================================================================
