--------------------------- MODULE SchemaAgreement ---------------------------
(***************************************************************************)
(* Growth beyond the listed properties (DESIGN.md section 7): waiting for  *)
(* schema agreement (Session::await_schema_agreement).                     *)
(*                                                                         *)
(* Every `interval` the driver asks every node it has a working connection *)
(* to for its schema version (one round).  A node answers with a version   *)
(* or with an error; errors are transient ("T" overloaded, "R" read        *)
(* timeout) or not ("F" invalid, "U" unavailable).  What the caller may    *)
(* rely on:                                                                *)
(*   Agreed     Ok(v) only for a round in which EVERY node answered v;     *)
(*   NoEarlyOk  never Ok while two nodes report different versions;        *)
(*   FatalStops a non-transient error ends the wait with that error;       *)
(*   Patience   a round without agreement and without such an error is     *)
(*              followed by another round until the time is up, and then   *)
(*              the caller gets the last transient error, or Timeout.      *)
(* When several nodes fail in one round it is not defined whose error the  *)
(* round reports (any of them): the model chooses nondeterministically.    *)
(*                                                                         *)
(* Script[n] is node n's answer to round 1, 2, ...; its last entry repeats *)
(* for ever (chosen from Scripts at the start).  MaxRounds = rounds that   *)
(* fit into the timeout.                                                   *)
(***************************************************************************)
EXTENDS Naturals, Sequences, FiniteSets
CONSTANTS Nodes, MaxRounds, Scripts      \* Scripts: the set of scripts ([Nodes -> Seq(answers)]) to explore
VARIABLES Script, round, last, result
vars == <<Script, round, last, result>>

Versions == {"A", "B", "C"}
Transient == {"T", "R"}
Fatal == {"F", "U"}
Min(a, b) == IF a < b THEN a ELSE b
Ans(n, k) == Script[n][Min(k, Len(Script[n]))]
Errors(k) == {Ans(n, k) : n \in Nodes} \ Versions
AllAgree(k) == Errors(k) = {} /\ Cardinality({Ans(n, k) : n \in Nodes}) = 1
TheVersion(k) == Ans(CHOOSE n \in Nodes : TRUE, k)

Init == Script \in Scripts /\ round = 1 /\ last = "none" /\ result = <<"pending">>
\* one round: all nodes are asked, then the outcome is decided
Round ==
  /\ result = <<"pending">> /\ round <= MaxRounds
  /\ IF AllAgree(round) THEN result' = <<"ok", TheVersion(round)>> /\ UNCHANGED last
     ELSE IF Errors(round) = {} THEN result' = result /\ last' = "none"         \* versions differ: wait
     ELSE \E e \in Errors(round) :                                               \* the round reports one of its errors
            IF e \in Fatal THEN result' = <<"err", e>> /\ UNCHANGED last
            ELSE result' = result /\ last' = e
  /\ round' = round + 1 /\ UNCHANGED Script
TimeUp ==
  /\ result = <<"pending">> /\ round > MaxRounds
  /\ result' = (IF last = "none" THEN <<"timeout">> ELSE <<"err", last>>)
  /\ UNCHANGED <<Script, round, last>>
Next == Round \/ TimeUp
Spec == Init /\ [][Next]_vars /\ WF_vars(Next)

\* ---------------------------------------------------------------- properties
Decided == result # <<"pending">>
DecidingRound == round - 1
Agreed == (result[1] = "ok") => \A n \in Nodes : Ans(n, DecidingRound) = result[2]
NoEarlyOk == (result[1] = "ok") => Cardinality({Ans(n, DecidingRound) : n \in Nodes}) = 1
FatalStops == (result[1] = "err" /\ result[2] \in Fatal) => result[2] \in Errors(DecidingRound)
Patience == (result[1] = "timeout" \/ (result[1] = "err" /\ result[2] \in Transient)) =>
              /\ round > MaxRounds
              /\ \A k \in 1..MaxRounds : ~AllAgree(k)                    \* it did not give up although agreement was on offer
Terminates == <>Decided

\* ---------------------------------------------------------------- the same as a function of the script (for judging real runs)
\* outcomes possible when round k is the first not yet played; steady = the rounds from k on are all alike
RECURSIVE Poss(_, _, _)
Steady(L) == IF AllAgree(L) THEN {<<"ok", TheVersion(L)>>}
             ELSE IF Errors(L) = {} THEN {<<"timeout">>}
             ELSE {<<"err", e>> : e \in Errors(L)}                       \* a fatal one at once, a transient one when the time is up
Poss(k, L, acc) ==
  IF k >= L THEN Steady(L)
  ELSE IF AllAgree(k) THEN {<<"ok", TheVersion(k)>>}
  ELSE IF Errors(k) = {} THEN Poss(k + 1, L, acc)
  ELSE {<<"err", e>> : e \in Errors(k) \cap Fatal} \cup (IF Errors(k) \cap Transient # {} THEN Poss(k + 1, L, acc) ELSE {})
LongestScript == CHOOSE m \in {Len(Script[n]) : n \in Nodes} : \A n \in Nodes : Len(Script[n]) <= m
Possible == Poss(1, LongestScript, {})
\* the model's own outcome is always one the function allows (MaxRounds > LongestScript)
FunctionAgrees == Decided => result \in Possible
=============================================================================
