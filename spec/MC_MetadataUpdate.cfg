SPECIFICATION Spec
CONSTANTS MaxLen = 4
INVARIANTS Lemma Emit
CHECK_DEADLOCK FALSE
