SPECIFICATION Spec
CONSTANTS
  Lens = {0, 1, 2, 7, 8, 9, 15, 16, 17, 31, 32, 33, 47, 48, 49, 64, 65, 70}
  Pats = {0, 1, 2}
  MaxMarkers = 5
  MaxKey = 3
  CompLens = {0, 1, 8, 16, 17}
INVARIANTS Emit
CHECK_DEADLOCK FALSE
