---------------------------- MODULE MC_CqlResponse ----------------------------
(***************************************************************************)
(* Generator for C08: well-formed frames of every response kind (with the  *)
(* description the decoder must give back), every truncation point of      *)
(* them, every single-field mutation the specification defines (Repl),     *)
(* deepened type nesting, and "stored" LZ4 / Snappy bodies.                *)
(* One initial state = one case; Emit prints it.                           *)
(***************************************************************************)
EXTENDS CqlResponse, CqlValueSamples, Ascii, CustomTypeStrings, TLC, Json
CONSTANTS Full      \* TRUE: all frames are mutated / truncated; FALSE: a representative subset (quick tier)

Col(ks, tb, name, t) == [ks |-> A(ks), table |-> A(tb), name |-> A(name), t |-> t]
Udt8 == [k |-> "udt", ks |-> A("ks"), name |-> A("my_udt"), fs |-> <<[n |-> A("a"), t |-> NT("int")], [n |-> A("b"), t |-> NT("text")]>>]
Vec8 == [k |-> "vector", e |-> NT("int"), d |-> 2,
         class |-> A("org.apache.cassandra.db.marshal.VectorType(org.apache.cassandra.db.marshal.Int32Type, 2)")]
VecT8 == [k |-> "vector", e |-> NT("text"), d |-> 3,
          class |-> A("org.apache.cassandra.db.marshal.VectorType(org.apache.cassandra.db.marshal.UTF8Type , 3)")]
Meta(global, cols, paging, newid) == [global |-> global, cols |-> cols, paging |-> paging, new_id |-> newid, no_metadata |-> FALSE, col_count |-> Len(cols)]
NoMeta(n, paging) == [global |-> FALSE, cols |-> << >>, paging |-> paging, new_id |-> None, no_metadata |-> TRUE, col_count |-> n]
Rows(meta, types, rows) == [k |-> "rows", meta |-> meta, types |-> types, rows |-> rows]
OneCol(t) == Meta(TRUE, <<Col("ks", "t", "v", t)>>, None, None)
ColTypes == {NT(n) : n \in Natives} \cup {L(NT("int")), St(NT("text")), M(NT("text"), NT("bigint")), Tp(<<NT("int"), NT("text")>>), Udt8, Vec8, VecT8,
             L(L(NT("int"))), M(NT("int"), L(NT("text"))), L(Udt8)}
Cols3 == <<Col("ks", "t", "pk", NT("int")), Col("ks", "t", "v", NT("text")), Col("ks", "t", "c", L(NT("int")))>>
Rows3 == << <<IV(0, <<1>>), Txt(<<97>>), [k |-> "seq", vs |-> <<IV(0, <<2>>), IV(1, <<3>>)>>]>>,
            <<IV(1, <<5>>), Null0, [k |-> "seq", vs |-> << >>]>> >>
T3 == <<NT("int"), NT("text"), L(NT("int"))>>
Cols2 == <<[ks |-> A("ks"), table |-> A("t"), name |-> A("a"), t |-> NT("int")], [ks |-> A("u"), table |-> A("v"), name |-> A("b"), t |-> NT("text")]>>

ErrCodes == {0, 10, 256, 4097, 4098, 4099, 8192, 8448, 8704, 8960, 12345, -1}
WTs == {"SIMPLE", "BATCH", "UNLOGGED_BATCH", "COUNTER", "BATCH_LOG", "CAS", "VIEW", "CDC", "WEIRD_WRITE_TYPE"}
NoX == [none |-> 1]
Err(code, reason, x) == [k |-> "error", code |-> code, reason |-> reason, x |-> x]
Errors ==
  {Err(c, A("oops"), NoX) : c \in ErrCodes} \cup {Err(0, << >>, NoX), Err(8704, A("U+007A-0061-017C-00F3-0142-0107"), NoX)}
  \cup {Err(4096, A("Cannot achieve consistency"), [cl |-> cl, required |-> 3, alive |-> 1]) : cl \in {1, 6, 10}}
  \cup {Err(4352, A("oops"), [cl |-> 4, received |-> 1, required |-> 2, write_type |-> A(w)]) : w \in WTs}
  \cup {Err(4608, A("oops"), [cl |-> 1, received |-> 0, required |-> 1, data_present |-> b]) : b \in {0, 1}}
  \cup {Err(4864, A("oops"), [cl |-> 6, received |-> 1, required |-> 2, numfailures |-> 1, data_present |-> 0])}
  \cup {Err(5120, A("oops"), [keyspace |-> A("ks"), function |-> A("fn"), arg_types |-> l]) : l \in {<< >>, <<A("int"), A("text")>>}}
  \cup {Err(5376, A("oops"), [cl |-> 4, received |-> 0, required |-> 2, numfailures |-> 2, write_type |-> A(w)]) : w \in {"SIMPLE", "CAS"}}
  \cup {Err(9216, A("oops"), [keyspace |-> A("ks"), table |-> tb]) : tb \in {A("t"), << >>}}
  \cup {Err(9472, A("oops"), [id |-> id]) : id \in {<<1, 2, 3, 4>>, << >>}}
  \cup {Err(61440, A("oops"), [op_type |-> o, rejected |-> r]) : o \in {0, 1, 7}, r \in {0, 1}}
SC(ch, tg) == [k |-> "schema", tag |-> A("SCHEMA_CHANGE"), change |-> A(ch), target |-> A(tg), ks |-> A("ks"),
               name |-> IF tg = "KEYSPACE" THEN None ELSE Some(A(IF tg \in {"FUNCTION", "AGGREGATE"} THEN "fn" ELSE "t")),
               args |-> IF tg \in {"FUNCTION", "AGGREGATE"} THEN Some(<<A("int"), A("text")>>) ELSE None]
SCs == {SC(ch, tg) : ch \in {"CREATED", "UPDATED", "DROPPED"}, tg \in {"KEYSPACE", "TABLE", "TYPE", "FUNCTION", "AGGREGATE"}}
V4 == <<127, 0, 1, 9>>
V6 == <<32, 1, 13, 184, 0, 0, 0, 0, 0, 0, 0, 0, 0, 0, 0, 1>>
Events == {[k |-> "event", ev |-> e] : e \in SCs}
  \cup {[k |-> "event", ev |-> [k |-> "topology", tag |-> A("TOPOLOGY_CHANGE"), change |-> A(ch), ip |-> ip, port |-> 9042]] : ch \in {"NEW_NODE", "REMOVED_NODE"}, ip \in {V4, V6}}
  \cup {[k |-> "event", ev |-> [k |-> "status", tag |-> A("STATUS_CHANGE"), change |-> A(ch), ip |-> ip, port |-> 19142]] : ch \in {"UP", "DOWN"}, ip \in {V4, V6}}
Supp == [k |-> "supported", opts |-> << <<A("COMPRESSION"), <<A("lz4"), A("snappy")>> >>, <<A("CQL_VERSION"), <<A("3.0.0")>> >>,
           <<A("SCYLLA_LWT_ADD_METADATA_MARK"), <<A("LWT_OPTIMIZATION_META_BIT_MASK=2147483648")>> >>, <<A("SCYLLA_NR_SHARDS"), <<A("12")>> >>,
           <<A("SCYLLA_PARTITIONER"), <<A("org.apache.cassandra.dht.Murmur3Partitioner")>> >>, <<A("SCYLLA_RATE_LIMIT_ERROR"), <<A("ERROR_CODE=61440")>> >>,
           <<A("SCYLLA_SHARD"), <<A("3")>> >>, <<A("SCYLLA_SHARDING_ALGORITHM"), <<A("biased-token-round-robin")>> >>,
           <<A("SCYLLA_SHARDING_IGNORE_MSB"), <<A("12")>> >>, <<A("SCYLLA_SHARD_AWARE_PORT"), <<A("19142")>> >>, <<A("TABLETS_ROUTING_V1"), << >> >> >>]
Simple == {[k |-> "ready"], [k |-> "void"], [k |-> "set_keyspace", ks |-> A("ks")], [k |-> "authenticate", name |-> A("org.apache.cassandra.auth.PasswordAuthenticator")],
           Supp, [k |-> "supported", opts |-> << >>]}
  \cup {[k |-> kk, token |-> t] : kk \in {"auth_challenge", "auth_success"}, t \in {None, Some(<< >>), Some(<<0, 255, 7>>)}}
  \cup {[k |-> "schema_change", ev |-> e] : e \in SCs}
PMeta(global, cols, pk, lwt) == [global |-> global, cols |-> cols, pk |-> pk, lwt |-> lwt]
Prepared(id, rmid, bind, result) == [k |-> "prepared", id |-> id, result_metadata_id |-> rmid, bind |-> bind, result |-> result]
Prepareds ==
  {Prepared(<<1, 2, 3, 4, 5, 6, 7, 8, 9, 10, 11, 12, 13, 14, 15, 16>>, None, PMeta(TRUE, Cols3, <<0>>, 0), Meta(TRUE, Cols3, None, None)),
   Prepared(<<9>>, None, PMeta(FALSE, Cols2, <<1, 0>>, 0), Meta(FALSE, Cols2, None, None)),
   Prepared(<<9, 9>>, None, PMeta(FALSE, << >>, << >>, 0), Meta(FALSE, << >>, None, None)),
   Prepared(<<7>>, None, PMeta(TRUE, Cols3, <<0>>, 1073741824), Meta(FALSE, << >>, None, None)),
   Prepared(<<8>>, Some(<<170, 187>>), PMeta(TRUE, Cols3, <<0>>, 0), Meta(TRUE, Cols3, None, None)),
   Prepared(<<6>>, None, PMeta(TRUE, <<Col("ks", "t", "u", L(Udt8))>>, << >>, 0), Meta(TRUE, <<Col("ks", "t", "u", L(Udt8))>>, None, None))}
\* a server never sends a null INSIDE a list / set / map (tuple and UDT fields may be null)
RowVals(t) == IF t.k \in {"list", "set"} THEN SubSeq(Vals(t), 1, 3) ELSE IF t.k = "map" THEN SubSeq(Vals(t), 1, 2) ELSE Vals(t)
RowsSet ==
  {Rows(OneCol(t), <<t>>, [i \in 1..Len(RowVals(t)) |-> <<RowVals(t)[i]>>] \o << <<Null0>> >>) : t \in {x \in ColTypes : x.k # "udt" /\ ~(x.k = "list" /\ x.e.k = "udt")}}
  \cup {Rows(OneCol(Udt8), <<Udt8>>, << <<[k |-> "udt", vs |-> <<IV(0, <<1>>), Txt(<<97>>)>>]>>, <<[k |-> "udt", vs |-> <<Null0, Null0>>]>> >>),
        Rows(OneCol(L(Udt8)), <<L(Udt8)>>, << <<[k |-> "seq", vs |-> <<[k |-> "udt", vs |-> <<IV(0, <<1>>), Txt(<<97>>)>>]>>]>> >>),
        Rows(Meta(TRUE, Cols3, None, None), T3, Rows3), Rows(Meta(TRUE, Cols3, None, None), T3, << >>),
        Rows(Meta(FALSE, Cols2, None, None), <<NT("int"), NT("text")>>, << <<IV(0, <<1>>), Txt(<<97>>)>> >>),
        Rows(Meta(TRUE, Cols3, Some(<<1, 2, 3>>), None), T3, Rows3), Rows(Meta(TRUE, Cols3, Some(<< >>), None), T3, Rows3),
        Rows(Meta(TRUE, Cols3, None, Some(<<170, 187, 204>>)), T3, Rows3),
        Rows(Meta(TRUE, Cols3, None, None), T3, Rows3) @@ [stale |-> TRUE],
        Rows(Meta(FALSE, Cols2, Some(<<9>>), None), <<NT("int"), NT("text")>>, << <<IV(0, <<1>>), Txt(<<97>>)>> >>) @@ [stale |-> TRUE],
        Rows(NoMeta(3, None), T3, Rows3), Rows(NoMeta(3, Some(<<4>>)), T3, Rows3), Rows(Meta(FALSE, << >>, None, None), << >>, << >>)}

\* features / cached metadata a description needs
FeatOf(d) == [rate_limit_error |-> IF d.k = "error" /\ d.code = 61440 THEN 61440 ELSE -1,
              lwt_mask |-> IF d.k = "prepared" /\ d.bind.lwt > 0 THEN d.bind.lwt ELSE -1,
              tablets |-> 0,
              metadata_id |-> IF (d.k = "rows" /\ d.meta.new_id.some = 1) \/ (d.k = "prepared" /\ d.result_metadata_id.some = 1) THEN 1 ELSE 0]
\* with "stale" a caller that asked to skip metadata (and holds OTHER columns) still gets the metadata the frame carries
CachedOf(d) == IF d.k = "rows" /\ d.meta.no_metadata THEN Cols3 ELSE IF d.k = "rows" /\ "stale" \in DOMAIN d THEN Cols2 ELSE << >>

Plain == [tracing |-> << >>, warnings |-> << >>, payload |-> None, stream |-> 1]
Uuid16 == <<0, 17, 34, 51, 68, 85, 70, 119, 136, 153, 170, 187, 204, 221, 238, 255>>
Exts == {Plain, [Plain EXCEPT !.tracing = Uuid16], [Plain EXCEPT !.warnings = <<A("warn1"), A("second warning")>>],
         [Plain EXCEPT !.payload = Some(<< <<A("key"), Some(<<1, 2>>)>>, <<A("tablets-routing-v1"), Some(<< >>)>> >>)],
         [tracing |-> Uuid16, warnings |-> <<A("warn1")>>, payload |-> Some(<< <<A("key"), Some(<<0>>)>> >>), stream |-> 32767],
         [Plain EXCEPT !.stream = -1], [Plain EXCEPT !.stream = 0]}
ExtHosts == {[k |-> "ready"], [k |-> "void"], Err(4096, A("Cannot achieve consistency"), [cl |-> 6, required |-> 3, alive |-> 1]),
             Rows(Meta(TRUE, Cols3, None, None), T3, Rows3)}
Descs == Errors \cup Simple \cup Events \cup Prepareds \cup RowsSet

(************************ "stored" compression (literals only) *************)
Lz4Stored(b) == LET n == Len(b) IN
  Seg("len32x", n, Int32(n))
  \o SRaw((IF n < 15 THEN <<n * 16>> ELSE <<240>> \o [i \in 1..((n - 15) \div 255) |-> 255] \o <<(n - 15) % 255>>) \o b)
RECURSIVE UVar(_)
UVar(n) == IF n < 128 THEN <<n>> ELSE <<128 + (n % 128)>> \o UVar(n \div 128)
RECURSIVE SnapLits(_)
SnapLits(b) == IF Len(b) = 0 THEN << >>
               ELSE LET m == IF Len(b) > 60 THEN 60 ELSE Len(b) IN <<(m - 1) * 4>> \o SubSeq(b, 1, m) \o SnapLits(SubSeq(b, m + 1, Len(b)))
SnappyStored(b) == Seg("uvarlen", Len(b), UVar(Len(b))) \o SRaw(SnapLits(b))
\* the frame of d with its body (extensions included) compressed
SFrameComp(d, x, comp) ==
  LET rest == Bytes(SExt(x) \o SBody(d))
      c == IF comp = "lz4" THEN Lz4Stored(rest) ELSE SnappyStored(rest) IN
  SHeader(FlagsOf(x) + 1, x.stream, Opcode(d), Len(Bytes(c))) \o c

\* a REAL LZ4 block (not literals only) for a body that ends in a run of K equal bytes: one sequence = the bytes before the run
\* and its first byte as literals + a match at offset 1 over the run (less its last 5 bytes), then the 5 closing literals.
\* Such a body shrinks by far more than 64 : 1 (LZ4 can reach 255 : 1): a plausibility bound on the declared size must admit it.
LenExt(n) == IF n < 15 THEN << >> ELSE [i \in 1..((n - 15) \div 255) |-> 255] \o <<(n - 15) % 255>>
Lz4Run(b, K) ==
  LET lit == SubSeq(b, 1, Len(b) - K + 1)  ml == K - 6  tail == SubSeq(b, Len(b) - 4, Len(b))
      tok == (IF Len(lit) < 15 THEN Len(lit) ELSE 15) * 16 + (IF ml - 4 < 15 THEN ml - 4 ELSE 15) IN
  Seg("len32x", Len(b), Int32(Len(b))) \o SRaw(<<tok>> \o LenExt(Len(lit)) \o lit \o <<1, 0>> \o LenExt(ml - 4) \o <<80>> \o tail)
RowsRun(K) == Rows(Meta(TRUE, <<Col("ks", "t", "v", NT("text"))>>, None, None), <<NT("text")>>, << <<Txt([i \in 1..K |-> 97])>> >>)
SFrameLz4Run(d, K) == LET c == Lz4Run(Bytes(SBody(d)), K) IN SHeader(FlagsOf(Plain) + 1, Plain.stream, Opcode(d), Len(Bytes(c))) \o c

(********************************** cases **********************************)
Rep == IF Full THEN Descs ELSE {d \in Descs : d.k \in {"rows", "prepared", "supported"} \/ (d.k = "error" /\ d.code \in {4096, 4352, 5120, 9472, 61440})
                                             \/ (d.k = "event" /\ d.ev.k # "schema") \/ d.k \in {"auth_success", "schema_change"}}
TypeIdAt(segs) == {i \in 1..Len(segs) : segs[i].tag = "typeid"}
\* a column (or a prepared statement's bind marker) whose type is the custom type with class name cs: whatever the name, decoding
\* the metadata ends with a type or an error
CtDesc(cs, prep) == LET t == [k |-> "vector", e |-> NT("int"), d |-> 2, class |-> cs] IN
  IF prep THEN Prepared(<<5>>, None, PMeta(TRUE, <<Col("ks", "t", "v", t)>>, << >>, 0), Meta(TRUE, <<Col("ks", "t", "v", t)>>, None, None))
  ELSE Rows(OneCol(t), <<t>>, << >>)
\* ... and with one row whose cell is 8 bytes (whatever the named type makes of them)
CtDescRow(cs) == LET t == [k |-> "vector", e |-> NT("int"), d |-> 2, class |-> cs] IN
  Rows(OneCol(t), <<t>>, << <<[k |-> "seq", vs |-> <<IV(0, <<1>>), IV(1, <<2>>)>>]>> >>)
\* a [bytes] value (a row cell, a paging state, ...) made k bytes shorter WITH its length prefix adjusted: the framing stays
\* self-consistent, only the value's own inner structure (vints, element lengths, fixed widths) comes up short
CellCut(segs, i, k) == LET b == segs[i + 1].b IN
  Reframe([segs EXCEPT ![i].b = Int32(Len(b) - k), ![i + 1].b = SubSeq(b, 1, Len(b) - k)])
CutSites(segs) == {i \in 1..(Len(segs) - 1) : segs[i].tag = "len32" /\ segs[i + 1].tag = "raw" /\ Len(segs[i + 1].b) >= 1 /\ segs[i].b = Int32(Len(segs[i + 1].b))}
Repeat(s, n) == IF Len(s) = 0 THEN << >> ELSE [i \in 1..(n * Len(s)) |-> s[((i - 1) % Len(s)) + 1]]
DeepCt(r) == Repeat(r.pre, r.n) \o r.mid \o Repeat(r.post, r.n)
VARIABLE c
Init ==
  \/ \E d \in {x \in Descs : x.k = "rows"} : LET segs == SFrame(d, Plain) IN \E i \in CutSites(segs) : \E k \in 1..3 :
        /\ k <= Len(segs[i + 1].b)
        /\ c = [kind |-> "cellcut", d |-> d, x |-> Plain, comp |-> "none", segs |-> CellCut(segs, i, k), at |-> i, tag |-> "cell"]
  \/ \E i \in 1..Len(CtDeep) : LET d == CtDesc(DeepCt(CtDeep[i]), FALSE) IN c = [kind |-> "ctype", d |-> d, x |-> Plain, comp |-> "none", segs |-> SFrame(d, Plain)]
  \/ \E i \in 1..Len(CtGood) : LET d == CtDescRow(CtGood[i]) IN c = [kind |-> "ctype", d |-> d, x |-> Plain, comp |-> "none", segs |-> SFrame(d, Plain)]
  \/ \E i \in 1..Len(CtBad) : LET d == CtDescRow(CtBad[i]) IN c = [kind |-> "ctype", d |-> d, x |-> Plain, comp |-> "none", segs |-> SFrame(d, Plain)]
  \/ \E i \in 1..Len(CtGood) : \E prep \in BOOLEAN : LET d == CtDesc(CtGood[i], prep) IN c = [kind |-> "ctype", d |-> d, x |-> Plain, comp |-> "none", segs |-> SFrame(d, Plain)]
  \/ \E i \in 1..Len(CtBad) : \E prep \in BOOLEAN : LET d == CtDesc(CtBad[i], prep) IN c = [kind |-> "ctype", d |-> d, x |-> Plain, comp |-> "none", segs |-> SFrame(d, Plain)]
  \/ \E d \in Descs : c = [kind |-> "wf", d |-> d, x |-> Plain, comp |-> "none", segs |-> SFrame(d, Plain)]
  \/ \E d \in ExtHosts : \E x \in Exts \ {Plain} : c = [kind |-> "wf", d |-> d, x |-> x, comp |-> "none", segs |-> SFrame(d, x)]
  \/ \E d \in ExtHosts \cup {Supp} : \E x \in {Plain, [Plain EXCEPT !.tracing = Uuid16]} : \E cm \in {"lz4", "snappy"} :
        c = [kind |-> "wf", d |-> d, x |-> x, comp |-> cm, segs |-> SFrameComp(d, x, cm)]
  \/ \E K \in {600, 20000} : LET d == RowsRun(K) IN c = [kind |-> "wf", d |-> d, x |-> Plain, comp |-> "lz4", segs |-> SFrameLz4Run(d, K)]
  \/ \E d \in Rep : LET segs == SFrame(d, Plain) IN \E i \in 1..Len(segs) : \E m \in MutantsAt(segs, i) :
        c = [kind |-> "mut", d |-> d, x |-> Plain, comp |-> "none", segs |-> m, at |-> i, tag |-> segs[i].tag]
  \/ \E d \in {[k |-> "void"], Rows(Meta(TRUE, Cols3, None, None), T3, Rows3)} : \E x \in Exts \ {Plain} :
        LET segs == SFrame(d, x) IN \E i \in 1..Len(segs) : \E m \in MutantsAt(segs, i) :
        c = [kind |-> "mut", d |-> d, x |-> x, comp |-> "none", segs |-> m, at |-> i, tag |-> segs[i].tag]
  \/ \E d \in {Supp, Rows(Meta(TRUE, Cols3, None, None), T3, Rows3)} : \E cm \in {"lz4", "snappy"} :
        LET segs == SFrameComp(d, Plain, cm) IN \E i \in 1..Len(segs) : \E m \in MutantsAt(segs, i) \cup
              (IF segs[i].tag = "len32x" THEN {[segs EXCEPT ![i].b = nb] : nb \in {Int32(0), Max32, Min1, Int32(segs[i].n + 1), Int32(segs[i].n - 1), <<0, 16, 0, 0>>}}
               ELSE IF segs[i].tag = "uvarlen" THEN {[segs EXCEPT ![i].b = nb] : nb \in {<<0>>, <<255, 255, 255, 255, 15>>, <<255, 255, 255, 255, 127>>, UVar(segs[i].n + 1), UVar(segs[i].n - 1)}}
               ELSE {}) :
        c = [kind |-> "mut", d |-> d, x |-> Plain, comp |-> cm, segs |-> m, at |-> i, tag |-> segs[i].tag]
  \/ \E d \in {x \in Rep : x.k \in {"rows", "prepared"}} : LET segs == SFrame(d, Plain) IN \E i \in TypeIdAt(segs) : \E n \in {1, 30, 300} : \E pat \in (IF n = 30 THEN {<<0, 32>>} ELSE DeepPats) :
        c = [kind |-> "deep", d |-> d, x |-> Plain, comp |-> "none", segs |-> Deepen(segs, i, n, pat), at |-> Len(Bytes(SubSeq(segs, 1, i - 1))), depth |-> n, tag |-> "typeid", pat |-> pat]
  \/ \E d \in Rep : LET f == Bytes(SFrame(d, Plain)) IN \E n \in 0..(Len(f) - 1) :
        \/ c = [kind |-> "trunc", d |-> d, x |-> Plain, comp |-> "none", segs |-> Seg("raw", 0, SubSeq(f, 1, n)), at |-> n]
        \/ (n >= 9 /\ c = [kind |-> "trunc", d |-> d, x |-> Plain, comp |-> "none", at |-> n,       \* header length made consistent
                           segs |-> Seg("raw", 0, SubSeq(f, 1, 5) \o Int32(n - 9) \o SubSeq(f, 10, n))])
Next == UNCHANGED c
Spec == Init /\ [][Next]_c
Emit == PrintT(<<"CASE", ToJson([kind |-> c.kind, d |-> c.d, x |-> c.x, comp |-> c.comp, feat |-> FeatOf(c.d), cached |-> CachedOf(c.d),
                                 frame |-> Bytes(c.segs), at |-> IF "at" \in DOMAIN c THEN c.at ELSE 0,
                                 tag |-> IF "tag" \in DOMAIN c THEN c.tag ELSE "", depth |-> IF "depth" \in DOMAIN c THEN c.depth ELSE 0,
                                 pat |-> IF "pat" \in DOMAIN c THEN c.pat ELSE << >>])>>)
=============================================================================
