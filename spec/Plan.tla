-------------------------------- MODULE Plan --------------------------------
(***************************************************************************)
(* C05 — what the default load-balancing policy's plans must satisfy.      *)
(* Pure judge of one recorded plan.  Record fields:                        *)
(*  ring, attr, strat ("none" kind = keyspace/table unknown), q (token     *)
(*  position, 0 = no token), en, al (per node: enabled / believed alive),  *)
(*  tokenaware, pref = <<kind, dc, rack>> kind in any|dc|dcrack,           *)
(*  failover, lwt, plan = sequence of <<node, shard>> (shard NoShard =     *)
(*  none) as produced by pick then fallback (the picked element filtered   *)
(*  out of fallback), variants = the replica prefixes of the same plan     *)
(*  computed again under other random states.                              *)
(* The specification is silent about the relative order of targets of the  *)
(* same class (shuffling, round robin).                                    *)
(***************************************************************************)
EXTENDS Replicas, Integers

NoShard == 99999

RingNodes(r) == {r.ring[i][2] : i \in 1..Len(r.ring)}
PrefDc(r) == IF r.pref[1] = "any" THEN "" ELSE r.pref[2]

Permitted(r, n) ==
  /\ n \in RingNodes(r) /\ r.en[n] = 1
  /\ (PrefDc(r) = "" \/ Dc(r.attr, n) = PrefDc(r) \/ r.failover = 1)

ReplicasOf(r) ==
  IF r.tokenaware = 1 /\ r.q > 0 /\ r.strat.kind # "none" THEN ReplicaSetOf(r.ring, r.attr, r.q, r.strat) ELSE {}

\* 0 live replica in the preferred rack < 1 live replica in the preferred DC < 2 other live replica
\* < 3 other live node < 4 node believed down
Class(r, R, n) ==
  IF r.al[n] = 0 THEN 4
  ELSE IF n \in R
       THEN IF r.pref[1] = "dcrack" /\ Dc(r.attr, n) = r.pref[2] /\ Rack(r.attr, n) = r.pref[3] THEN 0
            ELSE IF PrefDc(r) # "" /\ Dc(r.attr, n) = PrefDc(r) THEN 1
            ELSE 2
       ELSE 3

Same(a, b) == a[1] = b[1] /\ (a[2] = NoShard \/ b[2] = NoShard \/ a[2] = b[2])

PlanOK(r) ==
  S1(ReplicasOf(r), LAMBDA R :
  LET p == r.plan  n == Len(p)
      cls(i) == Class(r, R, p[i][1])
      repl == SelectSeq(p, LAMBDA e : Class(r, R, e[1]) <= 2)
  IN
  /\ \A i, j \in 1..n : i < j => ~Same(p[i], p[j])                       \* P1 never the same target twice
  /\ \A i \in 1..n : Permitted(r, p[i][1])                              \* P2 no excluded / forbidden-DC node
  /\ \A m \in RingNodes(r) : Permitted(r, m) => \E i \in 1..n : p[i][1] = m   \* P3 every other token owner present
  /\ \A i, j \in 1..n : i < j => cls(i) <= cls(j)                        \* P4 class order
  \* the same through the Plan iterator (shards made concrete there): P2, P3, P4
  /\ LET pi == r.plan_iter IN
     /\ \A i \in 1..Len(pi) : Permitted(r, pi[i][1])
     /\ \A m \in RingNodes(r) : Permitted(r, m) => \E i \in 1..Len(pi) : pi[i][1] = m
     /\ \A i, j \in 1..Len(pi) : i < j => Class(r, R, pi[i][1]) <= Class(r, R, pi[j][1])
     \* P1 through the iterator: giving shard-less targets a concrete shard names no node more often than pick + fallback do
     /\ \A m \in RingNodes(r) : Cardinality({i \in 1..Len(pi) : pi[i][1] = m}) = Cardinality({i \in 1..n : p[i][1] = m})
  /\ (r.lwt = 1) =>                                                     \* P5 LWT: one deterministic ring order
        /\ \A k \in 0..2 :
             [i \in 1..Len(SelectSeq(repl, LAMBDA e : Class(r, R, e[1]) = k)) |-> SelectSeq(repl, LAMBDA e : Class(r, R, e[1]) = k)[i][1]]
               = SelectSeq(Ordered(r.ring, r.q, R), LAMBDA m : Permitted(r, m) /\ Class(r, R, m) = k)
        /\ \A v \in 1..Len(r.variants) :
             SelectSeq(r.variants[v], LAMBDA e : Class(r, R, e[1]) <= 2) = repl)
=============================================================================
