----------------------------- MODULE MC_Timestamp -----------------------------
EXTENDS Timestamp, Json
View == <<last, pc, seen, ncalls, out>>
Emit == Done => PrintT(<<"REPLAY", ToJson([s |-> sched, o |-> out])>>)
=============================================================================
