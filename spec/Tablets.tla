------------------------------- MODULE Tablets -------------------------------
(***************************************************************************)
(* C15 — the tablet map of one table.                                      *)
(*                                                                         *)
(* Property level (TabletsProp part): tablets are remembered in learning   *)
(* order; learning a tablet kills every live tablet it overlaps;           *)
(* topology maintenance may discard tablets and re-resolves replicas; a    *)
(* token is answered by the most recently learnt tablet covering it if     *)
(* that tablet is still alive, else by nothing.                            *)
(*                                                                         *)
(* Implementation-shaped part: the sorted vector with the two              *)
(* partition_point searches of add_tablet and the one of lookup, and the   *)
(* maintenance rule "drop a tablet iff one of its replicas is removed or   *)
(* still unknown".  TLC checks that it refines the property level.         *)
(*                                                                         *)
(* Token space: positions 1..MaxPos.  Even positions are the universe      *)
(* tokens, odd positions the gaps between/around them (used for probes).   *)
(***************************************************************************)
EXTENDS TabletsOps, TLC

CONSTANTS NT,          \* number of universe tokens; positions 2,4,..,2*NT
          Nodes,       \* node ids
          DCs,         \* datacentre names
          RepLists,    \* set of replica lists (sequences of <<node, shard>>) tablets may carry
          InitKnown,   \* nodes known initially
          InitDc,      \* function Nodes -> DCs
          MaintOps,    \* set of [known |-> SUBSET Nodes, dc |-> [Nodes -> DCs]] maintenance targets
          MaxOps

MaxPos == 2 * NT + 1
Pos == 1..MaxPos

VARIABLES learnt,      \* sequence of [f, l, reps, alive, res] in learning order; res = nodes resolvable when last resolved
          known, dcOf, \* current topology
          list,        \* implementation: sorted vector of indices into `learnt`
          nops, hist

vars == <<learnt, known, dcOf, list, nops, hist>>

Init == /\ learnt = << >> /\ known = InitKnown /\ dcOf = InitDc /\ list = << >> /\ nops = 0 /\ hist = << >>

(************************ implementation-shaped part ***********************)
\* partition_point: number of leading elements satisfying P (the vector is partitioned)
PartitionPoint(v, P(_)) == Cardinality({k \in 1..Len(v) : P(v[k])})

AddTabletI(f, l, newIdx, L) ==
  LET left == PartitionPoint(list, LAMBDA i : L[i].l < f)
      right == PartitionPoint(list, LAMBDA i : L[i].f <= l)
  IN SubSeq(list, 1, left) \o <<newIdx>> \o SubSeq(list, right + 1, Len(list))

LookupI(L, v, p) ==
  LET idx == PartitionPoint(v, LAMBDA i : L[i].l < p) + 1
  IN IF idx <= Len(v) /\ L[v[idx]].f <= p THEN v[idx] ELSE 0


(********************************* actions *********************************)
Insert(f, l, reps) ==
  /\ nops < MaxOps /\ f \in Pos /\ l \in Pos /\ f <= l /\ f % 2 = 0 /\ l % 2 = 0
  /\ learnt' = LearnP(learnt, known, f, l, reps)
  /\ list' = AddTabletI(f, l, Len(learnt) + 1, learnt)
  /\ nops' = nops + 1
  /\ hist' = Append(hist, [op |-> "ins", f |-> f, l |-> l, reps |-> reps])
  /\ UNCHANGED <<known, dcOf>>

Maintain(m) ==
  /\ nops < MaxOps
  /\ LET disc == {i \in AliveIdx(learnt) : MustDrop(learnt[i], m.known)} IN
     /\ learnt' = MaintP(learnt, disc, m.known)
     /\ list' = SelectSeq(list, LAMBDA i : i \notin disc)
  /\ known' = m.known /\ dcOf' = m.dc
  /\ nops' = nops + 1
  /\ hist' = Append(hist, [op |-> "maint", known |-> m.known, dc |-> m.dc])

Next == (\E f, l \in Pos : \E reps \in RepLists : Insert(f, l, reps)) \/ (\E m \in MaintOps : Maintain(m))
Spec == Init /\ [][Next]_vars

(******************************** properties *******************************)
\* the vector is sorted and its ranges are pairwise disjoint
SortedDisjoint == \A a, b \in 1..Len(list) : a < b => learnt[list[a]].l < learnt[list[b]].f
\* the vector holds exactly the live tablets
ListIsAlive == {list[k] : k \in 1..Len(list)} = AliveIdx(learnt)
\* live tablets never overlap (theorem of the property-level rule)
AliveDisjoint == \A i, j \in AliveIdx(learnt) : i # j => ~Overlaps(learnt[i], learnt[j].f, learnt[j].l)
\* every lookup of the implementation answers what the property demands
LookupAgrees == \A p \in Pos : LookupI(learnt, list, p) = AnswerP(learnt, p)
\* a live tablet only lists currently known nodes
NoStaleNodes == \A i \in AliveIdx(learnt) : \A k \in 1..Len(RepsOf(learnt[i])) : RepsOf(learnt[i])[k][1] \in known
=============================================================================
