---------------------------- MODULE Trace_Keyspace ----------------------------
(* Judge of `vh-driver c20 run` records (prepared by checks/c20.py): every frame *)
(* of every request found its connection in a keyspace the script allows at     *)
(* that moment; names are accepted / refused as identifiers and never           *)
(* interpolated; at rest every open connection is in the session's keyspace.    *)
EXTENDS KeyspaceProp, Json, IOUtils, TLC
Rec == ndJsonDeserialize(IOEnv.TRACE)
VARIABLE l
ReqOK(r, q) == \A i \in 1..Len(q.frames) : q.frames[i].ks \in Allowed(r.uses, q.after, {q.conc[j] : j \in 1..Len(q.conc)}, {q.failed[j] : j \in 1..Len(q.failed)})
NameOK(n) ==
  IF ValidName(n.codes) THEN /\ n.ok = 1 /\ Len(n.texts) >= 1
                             /\ \A i \in 1..Len(n.texts) : n.texts[i] = UseText(n.codes, n.cs = 1)
  ELSE n.ok = 0 /\ n.err_kind = "bad_name" /\ n.texts = << >>
ScriptOK(r) ==
  /\ r.start_err = ""
  /\ \A i \in 1..Len(r.reqs) : ReqOK(r, r.reqs[i])
  /\ \A i \in 1..Len(r.names) : NameOK(r.names[i])
  /\ (r.settled = 1 => \A i \in 1..Len(r.final_conns) : r.final_conns[i].ks = r.uses[Len(r.uses)].ks)
TraceInit == l = 1 /\ TLCSet(1, 1)
TraceNext == l <= Len(Rec) /\ (IF ScriptOK(Rec[l]) THEN TRUE ELSE PrintT(<<"BAD", l>>)) /\ l' = l + 1
TraceSpec == TraceInit /\ [][TraceNext]_l
Progress == TLCSet(1, IF l > TLCGet(1) THEN l ELSE TLCGet(1))
TraceAccepted == IF TLCGet(1) = Len(Rec) + 1 THEN TRUE ELSE PrintT(<<"REJECTED at line", TLCGet(1)>>) /\ FALSE
=============================================================================
