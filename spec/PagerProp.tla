------------------------------ MODULE PagerProp ------------------------------
(***************************************************************************)
(* C07 — what a paged query must deliver, as pure functions of a scenario  *)
(* s = [pages, faults, consumer]: which page fetches succeed under the     *)
(* retry policy (C06's DefaultDecide), the requests that reach the nodes   *)
(* (ExpReqs), the rows the consumer gets (ExpItems), where it fails.       *)
(* Pager.tla proves these equal to what the pager machine does.            *)
(***************************************************************************)
EXTENDS RetryProp, Integers
PlanSize == 3
SymOf(f) ==
  CASE f = "overloaded" -> Sym("Overloaded", 0, 0, FALSE, "-") [] f = "bootstrapping" -> Sym("Bootstrapping", 0, 0, FALSE, "-")
    [] f = "unavailable" -> Sym("Unavailable", 0, 0, FALSE, "-") [] f = "read_timeout" -> Sym("ReadTimeout", 1, 1, FALSE, "-")
    [] f = "server_error" -> Sym("Server", 0, 0, FALSE, "-") [] f = "invalid" -> Sym("Invalid", 0, 0, FALSE, "-")
    [] f = "syntax" -> Sym("Syntax", 0, 0, FALSE, "-") [] f = "unauthorized" -> Sym("Unauthorized", 0, 0, FALSE, "-")
    [] f = "drop" -> Sym("Broken", 0, 0, FALSE, "-")
ERR == <<-1>>          \* the error marker in the channel (rows are positive)
RECURSIVE Flat(_)
Flat(ps) == IF ps = << >> THEN << >> ELSE Head(ps) \o Flat(Tail(ps))

(****************** what must come out (summary functions) *****************)
\* walking the faults of one page: [served, nreq] — whether the page is finally obtained and how many requests it takes
RECURSIVE Walk(_, _, _, _)
Walk(fs, i, f, l) ==
  IF i > Len(fs) THEN [served |-> TRUE, nreq |-> i]
  ELSE IF fs[i] = "delay" THEN [served |-> TRUE, nreq |-> i]
  \* the node forgot the prepared statement: the connection re-prepares and sends the same request again (no policy decision)
  ELSE IF fs[i] = "unprepared" THEN Walk(fs, i + 1, f, l)
  ELSE LET d == DefaultDecide(f, TRUE, "LocalQuorum", SymOf(fs[i])) IN
       IF d.d = "same" THEN Walk(fs, i + 1, d.fl, l)
       ELSE IF d.d = "next" /\ l > 1 THEN Walk(fs, i + 1, d.fl, l - 1)
       ELSE [served |-> FALSE, nreq |-> i]
Outcome(s, j) == Walk(s.faults[j], 1, Fresh, PlanSize)
FirstFail(s) == LET bad == {j \in 1..Len(s.pages) : ~Outcome(s, j).served} IN
                IF bad = {} THEN 0 ELSE CHOOSE j \in bad : \A i \in bad : j <= i
LastFetched(s) == IF FirstFail(s) = 0 THEN Len(s.pages) ELSE FirstFail(s)
ExpReqs(s) == Flat([j \in 1..LastFetched(s) |-> [i \in 1..Outcome(s, j).nreq |-> j]])
ExpItems(s) == Flat(SubSeq(s.pages, 1, IF FirstFail(s) = 0 THEN Len(s.pages) ELSE FirstFail(s) - 1))
IsPrefix(a, b) == Len(a) <= Len(b) /\ SubSeq(b, 1, Len(a)) = a

=============================================================================
