SPECIFICATION Spec
CONSTANTS
  MaxPush = 3
  MaxClear = 1
  MaxNoop = 1
  MaxRecv = 3
  MaxCancel = 2
  MaxTry = 1
  AllowSDrop = TRUE
  AllowRDrop = TRUE
  DropNotifyFirst = FALSE
  RecheckAfterFlag = TRUE
  EnableFirst = TRUE
  Atomic = TRUE
INVARIANTS TypeOK ExactlyOnceInOrder NoneOnlyAtEnd NoLostWakeup Emit
CHECK_DEADLOCK FALSE
