---------------------------- MODULE Trace_Topology ----------------------------
(* Judge for `vh-driver x02 run`: at every check the session's view is the      *)
(* model's membership (ViewIsTruth) and the requests went to members only       *)
(* (NoGhosts); the refresh itself succeeds.                                     *)
EXTENDS Topology, Json, IOUtils, TLC
Rec == ndJsonDeserialize(IOEnv.TRACE)
VARIABLE l
SeqSet(s) == {s[i] : i \in 1..Len(s)}
CheckOK(r, c) ==
  LET t == StateAt(Init0(SeqSet(r.init)), r.ops, c.at) IN       \* c.at = number of operations applied before this check (0-based index of the check)
  /\ c.refresh_ok = 1
  /\ SeqSet(c.view) = View(t) /\ Len(c.view) = Cardinality(View(t))
  /\ SeqSet(c.frames_to) \subseteq Members(t)
  /\ c.req_err = 0
OK(r) == /\ r.start_err = ""
         /\ Len(r.checks) = Cardinality({k \in 1..Len(r.ops) : r.ops[k].op = "check"})
         /\ \A i \in 1..Len(r.checks) : "harness_err" \notin DOMAIN r.checks[i] /\ CheckOK(r, r.checks[i])
TraceInit == l = 1 /\ TLCSet(1, 1)
TraceNext == l <= Len(Rec) /\ (IF OK(Rec[l]) THEN TRUE ELSE PrintT(<<"BAD", l>>)) /\ l' = l + 1
TraceSpec == TraceInit /\ [][TraceNext]_l
Progress == TLCSet(1, IF l > TLCGet(1) THEN l ELSE TLCGet(1))
TraceAccepted == IF TLCGet(1) = Len(Rec) + 1 THEN TRUE ELSE PrintT(<<"REJECTED at line", TLCGet(1)>>) /\ FALSE
=============================================================================
