--------------------------- MODULE MergeChannelProp ---------------------------
(***************************************************************************)
(* Property-level description of the metadata hand-off channel (C19): a    *)
(* linearizable capacity-one merge slot.  It says only what the property   *)
(* promises; it knows nothing about Notify, flags or step order.           *)
(*                                                                         *)
(*  - every update merged in is observed in exactly one received value,    *)
(*    in order (slot semantics at the linearization point);                *)
(*  - recv() returns None only when the sender is gone and the slot empty; *)
(*  - cancelling a pending recv() loses nothing;                           *)
(*  - modify() fails if the receiver was gone when it was called, and its  *)
(*    closure is then not applied;                                         *)
(*  - no lost wake-up: with the producer between operations, a consumer    *)
(*    that is parked without a pending wake-up has nothing to see.         *)
(***************************************************************************)
EXTENDS Naturals, Sequences

VARIABLES aslot,    \* abstract pending value (sequence of ids; << >> = None)
          asd, ard, \* sender / receiver gone
          pcall,    \* producer call in progress: [op, kind, x, lin, res, ardAtCall] or NoCall
          ccall     \* consumer call in progress: [lin, some, val] or NoCall

pvars == <<aslot, asd, ard, pcall, ccall>>
NoCall == [op |-> "none"]

PropInit == aslot = << >> /\ asd = FALSE /\ ard = FALSE /\ pcall = NoCall /\ ccall = NoCall

ModCall(kind, x) ==
  /\ pcall = NoCall /\ ~asd
  /\ pcall' = [op |-> "mod", kind |-> kind, x |-> x, lin |-> FALSE, res |-> 0, ardAtCall |-> ard]
  /\ UNCHANGED <<aslot, asd, ard, ccall>>

Apply(kind, x, s) == CASE kind = "push" -> Append(s, x)
                       [] kind = "clear" -> << >>
                       [] OTHER -> s

\* linearization point of modify(): either it fails (receiver gone) or the closure is applied
ModLin ==
  /\ pcall.op = "mod" /\ ~pcall.lin
  /\ \/ /\ ard /\ pcall' = [pcall EXCEPT !.lin = TRUE, !.res = 0] /\ UNCHANGED aslot
     \/ /\ ~pcall.ardAtCall
        /\ aslot' = Apply(pcall.kind, pcall.x, aslot)
        /\ pcall' = [pcall EXCEPT !.lin = TRUE, !.res = 1]
  /\ UNCHANGED <<asd, ard, ccall>>

ModRet(ok) ==
  /\ pcall.op = "mod" /\ pcall.lin /\ pcall.res = ok
  /\ pcall' = NoCall /\ UNCHANGED <<aslot, asd, ard, ccall>>

SDropCall == /\ pcall = NoCall /\ ~asd /\ pcall' = [op |-> "drop", lin |-> FALSE]
             /\ UNCHANGED <<aslot, asd, ard, ccall>>
SDropLin  == /\ pcall.op = "drop" /\ ~pcall.lin /\ asd' = TRUE /\ pcall' = [pcall EXCEPT !.lin = TRUE]
             /\ UNCHANGED <<aslot, ard, ccall>>
SDropRet  == /\ pcall.op = "drop" /\ pcall.lin /\ pcall' = NoCall /\ UNCHANGED <<aslot, asd, ard, ccall>>

RecvCall == /\ ccall = NoCall /\ ~ard /\ ccall' = [op |-> "recv", lin |-> FALSE, some |-> 0, val |-> << >>]
            /\ UNCHANGED <<aslot, asd, ard, pcall>>

RecvLin ==
  /\ ccall.op = "recv" /\ ~ccall.lin
  /\ \/ /\ aslot # << >> /\ ccall' = [ccall EXCEPT !.lin = TRUE, !.some = 1, !.val = aslot] /\ aslot' = << >>
     \/ /\ aslot = << >> /\ asd /\ ccall' = [ccall EXCEPT !.lin = TRUE, !.some = 0] /\ UNCHANGED aslot
  /\ UNCHANGED <<asd, ard, pcall>>

RecvRet(some, val) ==
  /\ ccall.op = "recv" /\ ccall.lin /\ ccall.some = some /\ ccall.val = val
  /\ ccall' = NoCall /\ UNCHANGED <<aslot, asd, ard, pcall>>

\* a cancelled recv() must not have consumed anything
Cancel == /\ ccall.op = "recv" /\ ~ccall.lin /\ ccall' = NoCall /\ UNCHANGED <<aslot, asd, ard, pcall>>

TryRecv(val) == /\ ccall = NoCall /\ ~ard /\ val = aslot /\ aslot' = << >> /\ UNCHANGED <<asd, ard, pcall, ccall>>

RDrop == /\ ccall = NoCall /\ ~ard /\ ard' = TRUE /\ UNCHANGED <<aslot, asd, pcall, ccall>>

\* observation: consumer parked with no wake-up pending while the producer is between operations
ParkedQuiescent ==
  /\ ccall.op = "recv" /\ ~ccall.lin /\ pcall = NoCall
  /\ aslot = << >> /\ ~asd
  /\ UNCHANGED pvars

PropReset == PropInit' = PropInit /\ aslot' = << >> /\ asd' = FALSE /\ ard' = FALSE /\ pcall' = NoCall /\ ccall' = NoCall

Lin == ModLin \/ SDropLin \/ RecvLin
=============================================================================
