------------------------------ MODULE MC_Pager ------------------------------
(* Scenario space for C07: TLC model-checks the pager machine of Pager.tla on  *)
(* every scenario and prints each scenario once for the conformance harness.   *)
EXTENDS Pager, Json, FiniteSets
CONSTANTS Full        \* TRUE: the whole product space (thorough); FALSE: the covering subset (quick)

\* rows are numbered 1, 2, 3 ... across pages, so that loss, duplication and reordering are all visible
RECURSIVE Number(_, _)
Number(sizes, from) == IF sizes = << >> THEN << >>
                       ELSE <<[i \in 1..Head(sizes) |-> from + i - 1]>> \o Number(Tail(sizes), from + Head(sizes))
FaultLists == {<< >>, <<"overloaded">>, <<"drop">>, <<"delay">>, <<"read_timeout">>, <<"unavailable">>, <<"invalid">>, <<"syntax">>,
               <<"server_error">>, <<"unauthorized">>, <<"bootstrapping", "overloaded">>, <<"read_timeout", "read_timeout">>,
               <<"unavailable", "unavailable">>, <<"overloaded", "delay">>, <<"read_timeout", "overloaded">>, <<"overloaded", "bootstrapping", "server_error">>,
               <<"unprepared">>, <<"overloaded", "unprepared">>}
HasUnprep(faults) == \E i \in 1..Len(faults) : "unprepared" \in {faults[i][j] : j \in 1..Len(faults[i])}
Few == {<< >>, <<"overloaded">>, <<"drop">>, <<"delay">>, <<"invalid">>, <<"read_timeout", "read_timeout">>, <<"bootstrapping", "overloaded">>}
\* after a connection was dropped the pool of that node may still be reconnecting: keep the later pages within what two
\* remaining plan targets can absorb (this bounds the scenario space, it is not part of the property)
NextFaults(fs) == Len(SelectSeq(fs, LAMBDA f : f \in {"overloaded", "bootstrapping", "unavailable", "server_error", "drop"}))
\* (three nodes: every earlier page with a drop may have left one pool reconnecting, so pools possibly down + fail-overs needed <= 2)
HasDrop(fs) == "drop" \in {fs[j] : j \in 1..Len(fs)}
DropsBefore(faults, i) == Cardinality({h \in 1..(i - 1) : HasDrop(faults[h])})
DropSafe(faults) == \A i \in 1..Len(faults) :
   (HasDrop(faults[i]) \/ DropsBefore(faults, i) > 0) => (NextFaults(faults[i]) <= 1 /\ DropsBefore(faults, i) + NextFaults(faults[i]) <= 2)
Consumers == {[mode |-> "all", n |-> 0], [mode |-> "slow", n |-> 0], [mode |-> "drop_after", n |-> 0], [mode |-> "drop_after", n |-> 1], [mode |-> "drop_after", n |-> 3]}
Sc(sizes, faults, cons, kind, sv) == [pages |-> Number(sizes, 1), faults |-> faults, consumer |-> cons, kind |-> kind, sv |-> sv]
NoFaults(n) == [i \in 1..n |-> << >>]
Patterns == {<<2>>, <<0>>, <<1, 2>>, <<2, 0, 1>>, <<0, 0, 2>>, <<1, 1, 1>>, <<2, 2, 0>>, <<0, 1>>, <<1, 2, 1, 2>>}
Covering ==
  {Sc(p, NoFaults(Len(p)), c, kd, 1) : p \in Patterns, c \in Consumers, kd \in {"prepared", "unprepared"}}
  \cup {Sc(<<1, 2, 1>>, [NoFaults(3) EXCEPT ![i] = f], c, kd, 1) :
          i \in 1..3, f \in FaultLists \ {<< >>}, c \in {[mode |-> "all", n |-> 0], [mode |-> "drop_after", n |-> 1]}, kd \in {"prepared", "unprepared"}}
  \cup {s \in {Sc(<<2, 1, 2>>, [[NoFaults(3) EXCEPT ![i] = f] EXCEPT ![j] = g], [mode |-> "all", n |-> 0], kd, 1) :
                 i \in 1..2, j \in 2..3, f \in Few \ {<< >>}, g \in Few \ {<< >>}, kd \in {"prepared", "unprepared"}} : DropSafe(s.faults)}
  \cup {Sc(<<0, 2, 0>>, [NoFaults(3) EXCEPT ![i] = f], [mode |-> "all", n |-> 0], "unprepared", 1) : i \in 1..3, f \in FaultLists \ {<< >>}}
  \cup {Sc(<<1, 1, 1>>, NoFaults(3), [mode |-> "all", n |-> 0], kd, sv) : kd \in {"prepared", "unprepared"}, sv \in 2..4}
  \cup {Sc(p, NoFaults(Len(p)), [mode |-> "all", n |-> 0], kd, 6) : p \in {<<1, 1, 1>>, <<2, 1>>, <<0, 2, 1>>}, kd \in {"prepared", "unprepared"}}
  \cup {Sc(<<1, 2, 1>>, [NoFaults(3) EXCEPT ![2] = <<"overloaded">>], [mode |-> "all", n |-> 0], "prepared", 6)}
  \* the server may return the same paging-state bytes with consecutive pages
  \cup {Sc(p, NoFaults(Len(p)), c, kd, 5) : p \in {<<1, 1, 1>>, <<2, 0, 1, 2>>, <<1, 2>>}, c \in {[mode |-> "all", n |-> 0], [mode |-> "drop_after", n |-> 1]}, kd \in {"prepared", "unprepared"}}
  \cup {Sc(<<1, 1, 2, 1>>, [NoFaults(4) EXCEPT ![i] = f], [mode |-> "all", n |-> 0], "prepared", 5) : i \in 2..4, f \in {<<"overloaded">>, <<"unprepared">>, <<"invalid">>}}
  \* a consumer slower than the worker, with a failure on a late page (the error waits behind an undelivered page)
  \cup {Sc(p, [NoFaults(Len(p)) EXCEPT ![i] = f], [mode |-> "slow", n |-> 0], kd, 1) :
          p \in {<<1, 1, 1, 1>>, <<2, 1, 2>>}, i \in 2..4, f \in {<<"invalid">>, <<"overloaded", "syntax">>, <<"unavailable", "unavailable">>}, kd \in {"prepared", "unprepared"}}
Product ==
  {s \in {Sc(p, fs, c, kd, 1) : p \in {<<1>>, <<0, 2>>, <<2, 1>>, <<1, 0, 2>>, <<2, 2, 1>>}, fs \in UNION {[1..n -> FaultLists] : n \in 1..3},
                                c \in Consumers, kd \in {"prepared"}} : Len(s.faults) = Len(s.pages) /\ DropSafe(s.faults)}
Well(s) == (HasUnprep(s.faults) => s.kind = "prepared") /\ (\E i \in DOMAIN s.faults : i > Len(s.pages)) = FALSE /\ Len(s.faults) = Len(s.pages)
Scenarios == {s \in (IF Full THEN Covering \cup Product ELSE Covering) : Well(s)}

Init == \E s \in Scenarios : Init0(s)
Spec == Init /\ [][Next]_vars /\ Fairness
\* paging-state byte strings (what the server returns with page i): sv selects the flavour
StateOf(sv, i) == CASE sv = 1 -> <<i>> [] sv = 2 -> <<255, 255, i, 0>> [] sv = 3 -> [j \in 1..64 |-> (i * 37 + j) % 256] [] sv = 4 -> <<0, i>>
                         [] sv = 6 -> IF i = 1 THEN << >> ELSE <<i>>          \* "more pages" announced with a paging state of length zero
                    [] sv = 5 -> <<7, 7>>
Emit == TLCGet("level") = 1 =>
  PrintT(<<"SCEN", ToJson([kind |-> sc.kind, pages |-> sc.pages, faults |-> sc.faults, consumer |-> sc.consumer,
                           states |-> [i \in 1..(Len(sc.pages) - 1) |-> StateOf(sc.sv, i)], page_size |-> 2])>>)
=============================================================================
