------------------------------ MODULE MC_Tablets ------------------------------
EXTENDS Tablets, Json
R1 == << <<1, 0>> >>
R12 == << <<1, 0>>, <<2, 1>> >>
R23 == << <<2, 0>>, <<3, 1>> >>
MCRepLists == {R1, R12, R23}
MCInitDc == [n \in {1, 2, 3} |-> IF n = 2 THEN "dc2" ELSE "dc1"]
MCMaintOps == { [known |-> {2, 3}, dc |-> MCInitDc],                                   \* node 1 removed, node 3 appears
                [known |-> {1, 2}, dc |-> [MCInitDc EXCEPT ![2] = "dc3"]],             \* node 2 re-created in another DC
                [known |-> {1, 2, 3}, dc |-> MCInitDc],                                \* node 3 appears
                [known |-> {1, 2}, dc |-> MCInitDc] }                                  \* nothing changes
View == <<learnt, known, dcOf, list, nops>>
Alphabet == [ins |-> [f : {p \in Pos : p % 2 = 0}, l : {p \in Pos : p % 2 = 0}, reps : MCRepLists],
             maint |-> MCMaintOps]
ASSUME PrintT(<<"ALPHABET", ToJson(Alphabet)>>)
=============================================================================
