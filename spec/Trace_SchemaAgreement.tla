------------------------ MODULE Trace_SchemaAgreement ------------------------
(***************************************************************************)
(* Judge for runs of the real Session::await_schema_agreement against mock *)
(* nodes answering by script (records of `vh-driver x01 run`): the result  *)
(* must be one SchemaAgreement.Possible allows for that script, a timeout- *)
(* type result must not come before the time is up, and the nodes are not  *)
(* polled more often than once per interval.  The scripts are followed as  *)
(* far as the recorded poll counts say the run got.                        *)
(***************************************************************************)
EXTENDS Naturals, Sequences, FiniteSets, Json, IOUtils, TLC
Rec == ndJsonDeserialize(IOEnv.TRACE)
VARIABLE l
Versions == {"A", "B", "C"}
Transient == {"T", "R"}
Fatal == {"F", "U"}
Min(a, b) == IF a < b THEN a ELSE b
Ans(sc, n, k) == sc[n][Min(k, Len(sc[n]))]
Errors(sc, k) == {Ans(sc, n, k) : n \in 1..Len(sc)} \ Versions
AllAgree(sc, k) == Errors(sc, k) = {} /\ Cardinality({Ans(sc, n, k) : n \in 1..Len(sc)}) = 1
Steady(sc, L) == IF AllAgree(sc, L) THEN {<<"ok", Ans(sc, 1, L)>>}
                 ELSE IF Errors(sc, L) = {} THEN {<<"timeout", "">>}
                 ELSE {<<"err", e>> : e \in Errors(sc, L)}
RECURSIVE Poss(_, _, _)
Poss(sc, k, L) ==
  IF k >= L THEN Steady(sc, L)
  ELSE IF AllAgree(sc, k) THEN {<<"ok", Ans(sc, 1, k)>>}
  ELSE IF Errors(sc, k) = {} THEN Poss(sc, k + 1, L)
  ELSE {<<"err", e>> : e \in Errors(sc, k) \cap Fatal} \cup (IF Errors(sc, k) \cap Transient # {} THEN Poss(sc, k + 1, L) ELSE {})
Longest(sc) == CHOOSE m \in {Len(sc[n]) : n \in 1..Len(sc)} : \A n \in 1..Len(sc) : Len(sc[n]) <= m
\* how far into the scripts the run really got: a loaded machine may fit fewer polls into the time-out than the scripts are long,
\* and the result then reflects the last round polled (the rounds of two nodes may differ by one when the time runs out mid-round)
MaxOf(S) == CHOOSE m \in S : \A x \in S : x <= m
MinOf(S) == CHOOSE m \in S : \A x \in S : m <= x
Reached(r, pick(_)) == LET p == pick({r.polls[n] : n \in 1..Len(r.polls)}) IN Min(Longest(r.script), IF p < 1 THEN 1 ELSE p)
OK(r) ==
  /\ <<r.kind, r.val>> \in Poss(r.script, 1, Reached(r, MaxOf)) \cup Poss(r.script, 1, Reached(r, MinOf))
  /\ ((r.kind = "timeout" \/ (r.kind = "err" /\ r.val \in Transient)) => r.elapsed_ms >= r.timeout_ms - 5)       \* not before the time is up
  /\ \A n \in 1..Len(r.polls) : r.polls[n] <= (r.elapsed_ms \div r.interval_ms) + 2                               \* one poll per interval
  /\ (r.kind = "ok" => \A n \in 1..Len(r.polls) : r.polls[n] >= 1)
TraceInit == l = 1 /\ TLCSet(1, 1)
TraceNext == l <= Len(Rec) /\ (IF OK(Rec[l]) THEN TRUE ELSE PrintT(<<"BAD", l>>)) /\ l' = l + 1
TraceSpec == TraceInit /\ [][TraceNext]_l
Progress == TLCSet(1, IF l > TLCGet(1) THEN l ELSE TLCGet(1))
TraceAccepted == IF TLCGet(1) = Len(Rec) + 1 THEN TRUE ELSE PrintT(<<"REJECTED at line", TLCGet(1)>>) /\ FALSE
=============================================================================
