SPECIFICATION GenSpec
CONSTANTS
  MaxM = 2
  Intervals = {1, 2}
  Durs = {0, 1, 2, 4}
  Outs = {"Ok", "Def", "Ign", "Exh"}
INVARIANTS Emit
CHECK_DEADLOCK FALSE
