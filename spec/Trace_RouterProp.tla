--------------------------- MODULE Trace_RouterProp ---------------------------
(***************************************************************************)
(* Judge for runs of the real Connection::router over an in-memory pipe    *)
(* (C02, C10).  Harness-level events only (what callers and the server     *)
(* see); hook events are filtered out before validation.                   *)
(*   Submit(r)              caller r hands a request to the connection     *)
(*   SrvRecv(stream, r)     the server received r's frame on `stream`      *)
(*   SrvSend(stream, r)     the server wrote the COMPLETE response to r    *)
(*   Cancel(r)              caller r dropped its future                    *)
(*   Done(r, tag)           caller r got a response with payload tag       *)
(*   DoneErr(r)             caller r got an error                          *)
(*   Fault(kind)            the server broke the connection / went silent  *)
(*   Quiet(n, wrong, clash, unfinished)  n untracked requests passed through *)
(*   End(pending, broken)   end of run: callers still waiting              *)
(* Response payload of request r is r + 1000 by construction.              *)
(***************************************************************************)
EXTENDS Naturals, Integers, Sequences, FiniteSets, Json, IOUtils, TLC
Rec == ndJsonDeserialize(IOEnv.TRACE)
VARIABLES l, submitted, owed, answered, cancelled, finished, broken
tvars == <<l, submitted, owed, answered, cancelled, finished, broken>>
Clear == /\ submitted' = {} /\ owed' = << >> /\ answered' = {} /\ cancelled' = {} /\ finished' = {} /\ broken' = FALSE
TraceInit == l = 1 /\ submitted = {} /\ owed = << >> /\ answered = {} /\ cancelled = {} /\ finished = {} /\ broken = FALSE /\ TLCSet(1, 1)
IsEvent(e) == l <= Len(Rec) /\ Rec[l].ev = e /\ l' = l + 1
Upd(f, k, v) == [x \in DOMAIN f \cup {k} |-> IF x = k THEN v ELSE f[x]]
Del(f, k) == [x \in DOMAIN f \ {k} |-> f[x]]
SeqToSet(s) == {s[i] : i \in 1..Len(s)}

TrSubmit == IsEvent("Submit") /\ Rec[l].r \notin submitted /\ submitted' = submitted \cup {Rec[l].r}
            /\ UNCHANGED <<owed, answered, cancelled, finished, broken>>
TrRecv == /\ IsEvent("SrvRecv")
          /\ Rec[l].r \in submitted
          /\ \A s \in DOMAIN owed : owed[s] # Rec[l].r            \* a request is written once
          /\ Rec[l].stream \notin DOMAIN owed                     \* StreamUniqueOnWire
          /\ Rec[l].stream >= 0
          /\ owed' = Upd(owed, Rec[l].stream, Rec[l].r)
          /\ UNCHANGED <<submitted, answered, cancelled, finished, broken>>
TrSend == /\ IsEvent("SrvSend")
          /\ Rec[l].stream \in DOMAIN owed /\ owed[Rec[l].stream] = Rec[l].r
          /\ owed' = Del(owed, Rec[l].stream) /\ answered' = answered \cup {Rec[l].r}
          /\ UNCHANGED <<submitted, cancelled, finished, broken>>
TrCancel == /\ IsEvent("Cancel") /\ cancelled' = cancelled \cup {Rec[l].r}
            /\ UNCHANGED <<submitted, owed, answered, finished, broken>>
TrDone == /\ IsEvent("Done")
          /\ LET r == Rec[l].r IN
             /\ r \in submitted /\ r \notin cancelled /\ r \notin finished
             /\ r \in answered                        \* only a complete response frame of its own
             /\ Rec[l].tag = r + 1000                 \* NoCrossDelivery
             /\ finished' = finished \cup {r}
          /\ UNCHANGED <<submitted, owed, answered, cancelled, broken>>
TrDoneErr == /\ IsEvent("DoneErr")
             /\ LET r == Rec[l].r IN
                /\ r \in submitted /\ r \notin cancelled /\ r \notin finished
                /\ broken                             \* a healthy connection fails nobody
                /\ finished' = finished \cup {r}
             /\ UNCHANGED <<submitted, owed, answered, cancelled, broken>>
TrFault == IsEvent("Fault") /\ broken' = TRUE /\ UNCHANGED <<submitted, owed, answered, cancelled, finished>>
TrKeep == IsEvent("SrvKeepalive") /\ UNCHANGED <<submitted, owed, answered, cancelled, finished, broken>>
TrEnd == /\ IsEvent("End")
         /\ Rec[l].pending = << >>                   \* nobody is left waiting (C10: none hangs)
         /\ \A r \in submitted : r \in cancelled \/ r \in finished
         /\ UNCHANGED <<submitted, owed, answered, cancelled, finished, broken>>
\* n further requests went through the connection meanwhile, judged by the harness one by one: each was answered with its own
\* response (wrong = 0), none was written on a stream id still owed to another request (clash = 0), none was left waiting
TrQuiet == /\ IsEvent("Quiet") /\ Rec[l].wrong = 0 /\ Rec[l].clash = 0 /\ Rec[l].unfinished = 0
           /\ UNCHANGED <<submitted, owed, answered, cancelled, finished, broken>>
TrReset == IsEvent("Reset") /\ Clear
TraceNext == TrQuiet \/ TrSubmit \/ TrRecv \/ TrSend \/ TrCancel \/ TrDone \/ TrDoneErr \/ TrFault \/ TrKeep \/ TrEnd \/ TrReset
TraceSpec == TraceInit /\ [][TraceNext]_tvars
Progress == TLCSet(1, IF l > TLCGet(1) THEN l ELSE TLCGet(1))
TraceAccepted == IF TLCGet(1) = Len(Rec) + 1 THEN TRUE
                 ELSE PrintT(<<"REJECTED at line", TLCGet(1)>>) /\ FALSE
=============================================================================
