------------------------------ MODULE Timestamp ------------------------------
(***************************************************************************)
(* MonotonicTimestampGenerator::next_timestamp as the lock-free program it *)
(* is: load `last`; read the clock; cur = clock if clock > seen else       *)
(* seen+1; compare-and-swap(last: seen -> cur); retry on failure.  The     *)
(* clock is adversarial: every reading is ANY value of the domain (stall,  *)
(* repeat, step backwards).  One action per code segment between two       *)
(* shared-memory accesses (the clock read and the arithmetic are local).   *)
(*                                                                         *)
(* CasChecksSeen = FALSE models the classic broken variant "store instead  *)
(* of compare-exchange" (used to show the properties are not vacuous).     *)
(***************************************************************************)
EXTENDS Naturals, Sequences, FiniteSets, TLC

CONSTANTS Threads, Calls, MaxClock, CasChecksSeen

VARIABLES last,      \* the shared AtomicI64
          pc,        \* per thread: "idle" | "loaded" | "done"
          seen,      \* per thread: value loaded from `last`
          ncalls,    \* per thread: calls started
          out,       \* per thread: sequence of values handed out
          sched      \* history: the schedule, for replay on real threads

vars == <<last, pc, seen, ncalls, out, sched>>

Init == /\ last = 0
        /\ pc = [t \in Threads |-> "idle"]
        /\ seen = [t \in Threads |-> 0]
        /\ ncalls = [t \in Threads |-> 0]
        /\ out = [t \in Threads |-> << >>]
        /\ sched = << >>

\* start of a call, or retry after a failed CAS: load `last`
Load(t) ==
  /\ pc[t] = "idle" /\ ncalls[t] < Calls
  /\ ncalls' = [ncalls EXCEPT ![t] = @ + 1]
  /\ seen' = [seen EXCEPT ![t] = last]
  /\ pc' = [pc EXCEPT ![t] = "loaded"]
  /\ sched' = Append(sched, [t |-> t, k |-> "call", c |-> 0])
  /\ UNCHANGED <<last, out>>

Next1(s, c) == IF c > s THEN c ELSE s + 1

\* clock read (any value), arithmetic, compare-and-swap; on failure reload
Cas(t, c) ==
  /\ pc[t] = "loaded"
  /\ LET cur == Next1(seen[t], c) IN
     IF (last = seen[t]) \/ ~CasChecksSeen
     THEN /\ last' = cur
          /\ out' = [out EXCEPT ![t] = Append(@, cur)]
          /\ pc' = [pc EXCEPT ![t] = "idle"]
          /\ UNCHANGED seen
     ELSE /\ seen' = [seen EXCEPT ![t] = last]      \* failed: loop, load again
          /\ UNCHANGED <<last, out, pc>>
  /\ sched' = Append(sched, [t |-> t, k |-> "cas", c |-> c])
  /\ UNCHANGED ncalls

Next == \E t \in Threads : Load(t) \/ \E c \in 1..MaxClock : Cas(t, c)

Spec == Init /\ [][Next]_vars /\ WF_vars(Next)

(****************************** properties *********************************)
AllOut == UNION {{out[t][i] : i \in 1..Len(out[t])} : t \in Threads}
Total == LET S[T \in SUBSET Threads] == IF T = {} THEN 0 ELSE LET t == CHOOSE x \in T : TRUE IN Len(out[t]) + S[T \ {t}]
         IN S[Threads]

\* pairwise distinct across all threads
Unique == Cardinality(AllOut) = Total
\* strictly increasing along every thread's own sequence of calls
PerThreadIncreasing == \A t \in Threads : \A i \in 1..Len(out[t]) - 1 : out[t][i] < out[t][i + 1]
\* `last` is the maximum handed out
LastIsMax == \A v \in AllOut : v <= last

Done == \A t \in Threads : pc[t] = "idle" /\ ncalls[t] = Calls
\* every call returns (lock-freedom under fairness)
Terminates == <>Done
=============================================================================
