------------------------- MODULE Trace_TimestampE2E -------------------------
(***************************************************************************)
(* C18, end-to-end: the timestamp field of every QUERY / EXECUTE / BATCH   *)
(* frame the mock node received (records of `vh-driver c18 e2e`).          *)
(*  - a timestamp set explicitly on the statement / batch is what every    *)
(*    frame of that request carries (also the one re-sent after a          *)
(*    re-preparation, also a batch rebuilt around an unprepared statement, *)
(*    also a paged request, a statement the node marked as LWT, a batch    *)
(*    whose members carry explicit timestamps of their own);               *)
(*  - otherwise the frames carry a generated one, the same on every frame  *)
(*    of the request, and along the caller's sequence of requests the      *)
(*    generated timestamps strictly increase.                              *)
(* 64-bit timestamps arrive as <<hi, lo>> = divmod(ts, 2^30).              *)
(***************************************************************************)
EXTENDS Integers, Sequences, FiniteSets, Json, IOUtils, TLC
Rec == ndJsonDeserialize(IOEnv.TRACE)
VARIABLE l
Lt(a, b) == a[1] < b[1] \/ (a[1] = b[1] /\ a[2] < b[2])
PreparedOps == {"execute", "execute_page", "execute_iter", "execute_lwt", "batch_prepared", "batch_mixed", "batch_member"}
StepOK(s) ==
  /\ s.ok = 1 /\ Len(s.frames) >= 1
  /\ \A i \in 1..Len(s.frames) : s.frames[i].has_ts = 1
  /\ \A i \in 1..Len(s.frames) : s.frames[i].ts = s.frames[1].ts
  /\ (s.step.explicit = 1 => s.frames[1].ts = s.want)
  \* an eviction really caused the re-preparation path
  /\ (s.step.evict = 1 /\ s.step.op \in PreparedOps => Len(s.frames) >= 2)
ScriptOK(r) ==
  /\ r.start_err = ""
  /\ \A i \in 1..Len(r.steps) : StepOK(r.steps[i])
  /\ \A i, j \in 1..Len(r.steps) : (i < j /\ r.steps[i].step.explicit = 0 /\ r.steps[j].step.explicit = 0 /\ Len(r.steps[i].frames) >= 1 /\ Len(r.steps[j].frames) >= 1)
                                    => Lt(r.steps[i].frames[1].ts, r.steps[j].frames[1].ts)
TraceInit == l = 1 /\ TLCSet(1, 1)
TraceNext == l <= Len(Rec) /\ (IF ScriptOK(Rec[l]) THEN TRUE ELSE PrintT(<<"BAD", l>>)) /\ l' = l + 1
TraceSpec == TraceInit /\ [][TraceNext]_l
Progress == TLCSet(1, IF l > TLCGet(1) THEN l ELSE TLCGet(1))
TraceAccepted == IF TLCGet(1) = Len(Rec) + 1 THEN TRUE ELSE PrintT(<<"REJECTED at line", TLCGet(1)>>) /\ FALSE
=============================================================================
