----------------------------- MODULE ConnRouter -----------------------------
(***************************************************************************)
(* C02 / C10 — one multiplexed connection: callers, the router's writer,   *)
(* reader and orphaner tasks around the stream-id / handler map, the wire  *)
(* and the server.  Implementation-shaped: one action per critical section *)
(* of network/connection.rs (all router tasks run on one task, so each map *)
(* operation is atomic).                                                   *)
(*                                                                         *)
(*  caller r:  idle -> queued (Submit) -> waiting (WriterTake = allocate   *)
(*             + write) -> done / failed;  Cancel at any stage             *)
(*             (a cancelled-but-queued request is still written, as in the *)
(*             code; its orphan notice may arrive before or after).        *)
(*  server:    answers the frames it holds in any order, or never.         *)
(*  faults:    SrvBreak (FIN/RST/garbage/unsolicited id/keep-alive         *)
(*             timeout) -> RouterBreak: every handler is failed, queued    *)
(*             and later requests fail through the dropped channel.        *)
(***************************************************************************)
EXTENDS Naturals, Sequences, FiniteSets, TLC

CONSTANTS Req,         \* request ids
          Streams,     \* available stream ids (the real space is 0..32767)
          AllowFault   \* BOOLEAN

VARIABLES caller,      \* [Req -> {"idle","queued","waiting","done","failed","abandoned"}]
          submitQ,     \* sequence of requests handed to the writer
          used, handlers, req2stream, orphans,     \* the ResponseHandlerMap
          orphanQ,     \* orphan notices not yet processed (set: unordered delivery is a superset of FIFO)
          atServer,    \* frames the server holds unanswered: set of <<stream, req>>
          s2c,         \* responses in flight to the client: sequence of <<stream, req>>
          delivered,   \* [Req -> 0 | request whose response it was handed]
          carried,     \* history: stream -> request whose frame last carried it
          broken

vars == <<caller, submitQ, used, handlers, req2stream, orphans, orphanQ, atServer, s2c, delivered, carried, broken>>

Init == /\ caller = [r \in Req |-> "idle"] /\ submitQ = << >>
        /\ used = {} /\ handlers = << >> /\ req2stream = << >> /\ orphans = {} /\ orphanQ = {}
        /\ atServer = {} /\ s2c = << >> /\ delivered = [r \in Req |-> 0] /\ carried = << >> /\ broken = FALSE

Upd(f, k, v) == [x \in DOMAIN f \cup {k} |-> IF x = k THEN v ELSE f[x]]
Del(f, k) == [x \in DOMAIN f \ {k} |-> f[x]]

Submit(r) ==
  /\ caller[r] = "idle"
  /\ IF broken THEN caller' = [caller EXCEPT ![r] = "failed"] /\ UNCHANGED submitQ
     ELSE caller' = [caller EXCEPT ![r] = "queued"] /\ submitQ' = Append(submitQ, r)
  /\ UNCHANGED <<used, handlers, req2stream, orphans, orphanQ, atServer, s2c, delivered, carried, broken>>

\* the caller's future is dropped: an orphan notice is sent (unless it already got its answer)
Cancel(r) ==
  /\ caller[r] \in {"queued", "waiting"}
  /\ caller' = [caller EXCEPT ![r] = "abandoned"]
  /\ orphanQ' = orphanQ \cup {r}
  /\ UNCHANGED <<submitQ, used, handlers, req2stream, orphans, atServer, s2c, delivered, carried, broken>>

\* writer: take a task, allocate ANY free id (the code takes the lowest), write the frame
WriterTake ==
  /\ ~broken /\ submitQ # << >>
  /\ LET r == Head(submitQ) IN
     /\ submitQ' = Tail(submitQ)
     /\ IF used = Streams
        THEN \* no free id: the caller is answered with UnableToAllocStreamId
             /\ caller' = [caller EXCEPT ![r] = IF @ = "abandoned" THEN @ ELSE "failed"]
             /\ UNCHANGED <<used, handlers, req2stream, atServer, carried>>
        ELSE \E s \in Streams \ used :
             /\ used' = used \cup {s}
             /\ handlers' = Upd(handlers, s, r) /\ req2stream' = Upd(req2stream, r, s)
             /\ atServer' = atServer \cup {<<s, r>>} /\ carried' = Upd(carried, s, r)
             /\ caller' = [caller EXCEPT ![r] = IF @ = "queued" THEN "waiting" ELSE @]
  /\ UNCHANGED <<orphans, orphanQ, s2c, delivered, broken>>

SrvRespond(s, r) ==
  /\ <<s, r>> \in atServer
  /\ atServer' = atServer \ {<<s, r>>}
  /\ s2c' = Append(s2c, <<s, r>>)
  /\ UNCHANGED <<caller, submitQ, used, handlers, req2stream, orphans, orphanQ, delivered, carried, broken>>

\* reader: one response frame: free the id, then Orphaned / Handler / Missing
ReaderLookup ==
  /\ ~broken /\ s2c # << >>
  /\ LET s == Head(s2c)[1]  from == Head(s2c)[2] IN
     /\ s2c' = Tail(s2c)
     /\ used' = used \ {s}
     /\ IF s \in orphans
        THEN /\ orphans' = orphans \ {s}
             /\ UNCHANGED <<handlers, req2stream, caller, delivered, broken>>
        ELSE IF s \in DOMAIN handlers
        THEN LET r == handlers[s] IN
             /\ handlers' = Del(handlers, s) /\ req2stream' = Del(req2stream, r)
             /\ delivered' = [delivered EXCEPT ![r] = from]
             /\ caller' = [caller EXCEPT ![r] = IF @ = "waiting" THEN "done" ELSE @]
             /\ UNCHANGED <<orphans, broken>>
        ELSE /\ broken' = TRUE                       \* unsolicited stream id: connection torn down
             /\ UNCHANGED <<handlers, req2stream, orphans, caller, delivered>>
  /\ UNCHANGED <<submitQ, orphanQ, atServer, carried>>

OrphanerStep(r) ==
  /\ ~broken /\ r \in orphanQ
  /\ orphanQ' = orphanQ \ {r}
  /\ IF r \in DOMAIN req2stream
     THEN LET s == req2stream[r] IN
          /\ orphans' = orphans \cup {s}
          /\ handlers' = Del(handlers, s) /\ req2stream' = Del(req2stream, r)
     ELSE UNCHANGED <<orphans, handlers, req2stream>>
  /\ UNCHANGED <<caller, submitQ, used, atServer, s2c, delivered, carried, broken>>

\* the peer closes / corrupts the stream, sends an unsolicited id, or stops answering keep-alives
SrvBreak == /\ AllowFault /\ ~broken /\ broken' = TRUE
            /\ UNCHANGED <<caller, submitQ, used, handlers, req2stream, orphans, orphanQ, atServer, s2c, delivered, carried>>

\* router(): first error wins; every handler is failed; queued tasks fail through the dropped channel
RouterBreak ==
  /\ broken
  /\ \E r \in Req : caller[r] \in {"queued", "waiting"}
  /\ caller' = [r \in Req |-> IF caller[r] \in {"queued", "waiting"} THEN "failed" ELSE caller[r]]
  /\ submitQ' = << >> /\ handlers' = << >> /\ req2stream' = << >>
  /\ UNCHANGED <<used, orphans, orphanQ, atServer, s2c, delivered, carried, broken>>

Next == (\E r \in Req : Submit(r) \/ Cancel(r) \/ OrphanerStep(r))
        \/ WriterTake \/ ReaderLookup \/ (\E p \in atServer : SrvRespond(p[1], p[2])) \/ SrvBreak \/ RouterBreak

Fair == /\ WF_vars(WriterTake) /\ WF_vars(ReaderLookup) /\ WF_vars(RouterBreak)
        /\ \A r \in Req : WF_vars(OrphanerStep(r))
Spec == Init /\ [][Next]_vars /\ Fair

(******************************** properties *******************************)
\* a caller is only ever handed the response to its own request
NoCrossDelivery == \A r \in Req : delivered[r] # 0 => delivered[r] = r
\* a stream id is never carried by two requests that the server has not both answered
StreamUniqueOnWire == \A p, q \in atServer : p[1] = q[1] => p = q
\* bookkeeping (diagnosis level)
Bookkeeping ==
  /\ DOMAIN handlers \cup orphans \subseteq used
  /\ DOMAIN handlers \cap orphans = {}
  /\ \A r \in DOMAIN req2stream : req2stream[r] \in DOMAIN handlers /\ handlers[req2stream[r]] = r
  /\ {p[1] : p \in atServer} \cup {s2c[i][1] : i \in 1..Len(s2c)} \subseteq used
\* a healthy connection is never torn down
NoSpuriousBreak == ~AllowFault => ~broken
\* C10: when the connection dies nobody keeps waiting; C02: an answered request completes
NobodyHangs == \A r \in Req : (broken /\ caller[r] \in {"queued", "waiting"}) ~> (caller[r] \in {"failed", "abandoned", "done"})
AnsweredCompletes == \A r \in Req : (\E i \in 1..Len(s2c) : s2c[i][2] = r /\ caller[r] = "waiting" /\ ~broken)
                                     ~> (caller[r] # "waiting" \/ broken)
=============================================================================
