---------------------------- MODULE Trace_RawBytes ----------------------------
(***************************************************************************)
(* C01 for the representations whose value IS a byte string (CqlVarint,    *)
(* CqlVarintBorrowed, CqlValue::Varint, CqlDecimal, CqlDecimalBorrowed,    *)
(* CqlValue::Decimal): the cell is [int n] followed by exactly the n bytes *)
(* the value holds (a decimal: the 4-byte scale first) - nothing trimmed,  *)
(* nothing padded, the zero-length string stays zero-length - and decoding *)
(* the cell hands the same bytes back.  "CqlVarint[]": a list of two.      *)
(***************************************************************************)
EXTENDS Naturals, Sequences, Json, IOUtils, TLC
Rec == ndJsonDeserialize(IOEnv.TRACE)
VARIABLE l
Int4(n) == <<(n \div 16777216) % 256, (n \div 65536) % 256, (n \div 256) % 256, n % 256>>
Bytes(b) == Int4(Len(b)) \o b
Scale == <<255, 255, 255, 253>>           \* -3
Content(r) == CASE r.carrier \in {"CqlVarint", "CqlVarintBorrowed", "CqlValue::Varint"} -> r.b
                [] r.carrier \in {"CqlDecimal", "CqlDecimalBorrowed", "CqlValue::Decimal"} -> Scale \o r.b
                [] r.carrier = "CqlVarint[]" -> Int4(2) \o Bytes(r.b) \o Bytes(r.b)
OK(r) == /\ r.panic = 0
         /\ r.ok = 1 /\ r.cell = Bytes(Content(r))
         /\ r.back_ok = 1 /\ r.back = r.b
TraceInit == l = 1 /\ TLCSet(1, 1)
TraceNext == l <= Len(Rec) /\ (IF OK(Rec[l]) THEN TRUE ELSE PrintT(<<"BAD", l>>)) /\ l' = l + 1
TraceSpec == TraceInit /\ [][TraceNext]_l
Progress == TLCSet(1, IF l > TLCGet(1) THEN l ELSE TLCGet(1))
TraceAccepted == IF TLCGet(1) = Len(Rec) + 1 THEN TRUE ELSE PrintT(<<"REJECTED at line", TLCGet(1)>>) /\ FALSE
=============================================================================
