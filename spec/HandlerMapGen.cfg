SPECIFICATION Spec
CONSTANTS R = 3
  K = 2
  MaxLen = 6
INVARIANTS Emit
CHECK_DEADLOCK FALSE
