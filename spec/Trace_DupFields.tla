---------------------------- MODULE Trace_DupFields ----------------------------
(***************************************************************************)
(* C08, typed column values through the DERIVED mappings, on metadata that *)
(* names a field twice (cases of MC_DupFields run by `vh-cql c16`): the    *)
(* generated type_check / deserialize / serialize each end with a value or *)
(* an error - none panics.  (Which of the two it is is not judged here:    *)
(* well-formed layouts are C16's.)                                         *)
(***************************************************************************)
EXTENDS Naturals, Sequences, Json, IOUtils, TLC
Rec == ndJsonDeserialize(IOEnv.TRACE)
VARIABLE l
OK(r) == r.ser_panic = 0 /\ r.de_panic = 0
TraceInit == l = 1 /\ TLCSet(1, 1)
TraceNext == l <= Len(Rec) /\ (IF OK(Rec[l]) THEN TRUE ELSE PrintT(<<"BAD", l>>)) /\ l' = l + 1
TraceSpec == TraceInit /\ [][TraceNext]_l
Progress == TLCSet(1, IF l > TLCGet(1) THEN l ELSE TLCGet(1))
TraceAccepted == IF TLCGet(1) = Len(Rec) + 1 THEN TRUE ELSE PrintT(<<"REJECTED at line", TLCGet(1)>>) /\ FALSE
=============================================================================
