SPECIFICATION Spec
CONSTANTS MaxLen = 4
INVARIANTS Emit
CHECK_DEADLOCK FALSE
