---------------------------- MODULE CqlValueSamples ----------------------------
(* Sample values of every CQL type (boundary values of the natives; collections, *)
(* tuples, UDTs, vectors built over them) — shared by the C01 vector generator   *)
(* and the C08 response generator.                                                *)
EXTENDS CqlValue
I(n, m) == [neg |-> n, mag |-> m]
IV(n, m) == [k |-> "i", i |-> I(n, m)]
NT(n) == [k |-> "native", n |-> n]
Txt(b) == [k |-> "s", b |-> b]
Raw(b) == [k |-> "bytes", b |-> b]
Bits(b) == [k |-> "bits", b |-> b]
Null0 == [k |-> "null"]
FF(n) == [i \in 1..n |-> 255]

NVals(n) ==
  CASE n = "tinyint" -> <<IV(0, << >>), IV(1, <<1>>), IV(0, <<127>>), IV(1, <<128>>)>>
    [] n = "smallint" -> <<IV(0, <<1>>), IV(1, <<1>>), IV(0, <<255, 127>>), IV(1, <<0, 128>>), IV(0, <<0, 1>>)>>
    [] n = "int" -> <<IV(0, <<1>>), IV(1, <<1>>), IV(0, <<255, 255, 255, 127>>), IV(1, <<0, 0, 0, 128>>), IV(0, << >>), IV(0, <<0, 0, 1>>)>>
    [] n = "bigint" -> <<IV(0, <<2>>), IV(1, <<1>>), IV(0, <<255, 255, 255, 255, 255, 255, 255, 127>>), IV(1, <<0, 0, 0, 0, 0, 0, 0, 128>>), IV(0, <<0, 0, 0, 0, 1>>)>>
    [] n = "counter" -> <<IV(0, <<7>>), IV(1, <<0, 1>>)>>
    [] n = "varint" -> <<IV(0, << >>), IV(0, <<127>>), IV(0, <<128>>), IV(1, <<128>>), IV(1, <<129>>), IV(0, <<0, 0, 0, 0, 0, 0, 0, 0, 1>>),
                         IV(1, <<1, 0, 0, 0, 0, 0, 0, 0, 1>>), IV(1, <<0, 128>>), IV(0, <<255, 255>>),
                         \* magnitudes that fill whole 64-bit digits: 2^63, 2^64 - 1, -(2^63) - 1, -(2^64 - 1), 2^127, 2^128 - 1
                         IV(0, <<0, 0, 0, 0, 0, 0, 0, 128>>), IV(0, FF(8)), IV(1, <<1, 0, 0, 0, 0, 0, 0, 128>>), IV(1, FF(8)),
                         IV(0, <<0, 0, 0, 0, 0, 0, 0, 0, 0, 0, 0, 0, 0, 0, 0, 128>>), IV(0, FF(16)), IV(1, <<0, 0, 0, 0, 0, 0, 0, 128>>)>>
    [] n = "date" -> <<IV(0, << >>), IV(0, <<0, 0, 0, 128>>), IV(0, <<255, 255, 255, 255>>), IV(0, <<1>>)>>
    [] n = "time" -> <<IV(0, << >>), IV(0, <<255, 255, 78, 145, 148, 78>>), IV(0, <<1>>)>>       \* 86399999999999
    [] n = "timestamp" -> <<IV(0, << >>), IV(1, <<1>>), IV(0, <<255, 255, 255, 255, 255, 255, 255, 127>>), IV(1, <<0, 0, 0, 0, 0, 0, 0, 128>>), IV(0, <<0, 16, 165, 212, 232>>)>>
    [] n = "boolean" -> <<[k |-> "b", v |-> 1], [k |-> "b", v |-> 0]>>
    [] n = "float" -> <<Bits(<<63, 128, 0, 0>>), Bits(<<127, 192, 0, 1>>), Bits(<<128, 0, 0, 0>>), Bits(<<255, 128, 0, 0>>)>>
    [] n = "double" -> <<Bits(<<63, 240, 0, 0, 0, 0, 0, 0>>), Bits(<<127, 248, 0, 0, 0, 0, 0, 7>>), Bits(<<128, 0, 0, 0, 0, 0, 0, 0>>)>>
    [] n = "text" -> <<Txt(<<97>>), Txt(<<195, 169, 240, 159, 152, 128>>), Txt(<< >>), Txt(<<98, 99>>)>>
    [] n = "ascii" -> <<Txt(<<97, 122>>), Txt(<< >>)>>
    [] n = "blob" -> <<Raw(<<255, 0, 128>>), Raw(<< >>), Raw(<<0>>)>>
    [] n = "uuid" -> <<Raw(<<0, 17, 34, 51, 68, 85, 70, 119, 136, 153, 170, 187, 204, 221, 238, 255>>), Raw([i \in 1..16 |-> 0])>>
    [] n = "timeuuid" -> <<Raw(<<0, 17, 34, 51, 68, 85, 22, 119, 136, 153, 170, 187, 204, 221, 238, 255>>)>>
    [] n = "inet" -> <<Raw(<<127, 0, 0, 1>>), Raw(<<32, 1, 13, 184, 0, 0, 0, 0, 0, 0, 0, 0, 0, 0, 0, 1>>),
                       \* 16-byte addresses that have a 4-byte look-alike (IPv4-mapped ::ffff:192.0.2.1, IPv4-compatible ::1.2.3.4) stay 16 bytes
                       Raw(<<0, 0, 0, 0, 0, 0, 0, 0, 0, 0, 255, 255, 192, 0, 2, 1>>), Raw(<<0, 0, 0, 0, 0, 0, 0, 0, 0, 0, 0, 0, 1, 2, 3, 4>>),
                       Raw(<<0, 0, 0, 0>>), Raw([i \in 1..16 |-> 0])>>
    [] n = "decimal" -> <<[k |-> "dec", scale |-> I(0, << >>), int |-> I(0, << >>)], [k |-> "dec", scale |-> I(1, <<3>>), int |-> I(1, <<129>>)],
                          [k |-> "dec", scale |-> I(0, <<255, 255, 255, 127>>), int |-> I(0, <<0, 0, 0, 0, 0, 0, 0, 0, 0, 1>>)],
                          [k |-> "dec", scale |-> I(0, <<2>>), int |-> I(0, FF(8))], [k |-> "dec", scale |-> I(1, <<0, 0, 0, 128>>), int |-> I(1, <<1, 0, 0, 0, 0, 0, 0, 128>>)]>>
    [] n = "duration" -> <<[k |-> "dur", months |-> I(0, << >>), days |-> I(0, << >>), nanos |-> I(0, << >>)],
                           [k |-> "dur", months |-> I(0, <<1>>), days |-> I(1, <<2>>), nanos |-> I(0, <<0, 0, 1>>)],
                           [k |-> "dur", months |-> I(0, <<255, 255, 255, 127>>), days |-> I(1, <<0, 0, 0, 128>>), nanos |-> I(1, <<0, 0, 0, 0, 0, 0, 0, 128>>)],
                           [k |-> "dur", months |-> I(0, <<64>>), days |-> I(1, <<64>>), nanos |-> I(0, <<255, 255, 255, 255, 255, 255, 255, 127>>)]>>
    [] OTHER -> << >>

Natives == {"ascii", "bigint", "blob", "boolean", "counter", "date", "decimal", "double", "duration", "float", "inet", "int",
            "smallint", "text", "time", "timestamp", "timeuuid", "tinyint", "uuid", "varint"}
ElemN == {"int", "text", "bigint", "boolean", "varint", "duration", "uuid"}

ZeroLen(T) == IF T.k = "native" /\ T.n \in {"text", "ascii"} THEN <<Txt(<< >>)>>
              ELSE IF T.k = "native" /\ T.n = "blob" THEN <<Raw(<< >>)>> ELSE << >>
RECURSIVE Vals(_)
SeqSet(s) == {s[i] : i \in 1..Len(s)}
Two(T) == LET vs == Vals(T) IN IF Len(vs) >= 2 THEN <<vs[1], vs[2]>> ELSE vs
Vals(T) ==
  CASE T.k = "native" -> NVals(T.n)
    [] T.k \in {"list", "set"} ->
         LET e == Two(T.e) IN
         << [k |-> "seq", vs |-> <<e[1], e[Len(e)]>>], [k |-> "seq", vs |-> << >>], [k |-> "seq", vs |-> <<e[1]>>],
            [k |-> "seq", vs |-> <<e[Len(e)], Null0, e[1]>>] >>
    [] T.k = "map" ->
         LET a == Two(T.a)  b == Two(T.b) IN
         << [k |-> "map", kvs |-> << <<a[1], b[1]>>, <<a[Len(a)], b[Len(b)]>> >>], [k |-> "map", kvs |-> << >>],
            [k |-> "map", kvs |-> << <<a[1], Null0>> >>] >>
    [] T.k = "tuple" ->
         LET full == [i \in 1..Len(T.ts) |-> Two(T.ts[i])[1]]
             alt == [i \in 1..Len(T.ts) |-> IF i % 2 = 0 THEN Null0 ELSE Two(T.ts[i])[Len(Two(T.ts[i]))]] IN
         << [k |-> "tup", vs |-> full], [k |-> "tup", vs |-> alt], [k |-> "tup", vs |-> SubSeq(full, 1, Len(full) - 1)],
            [k |-> "tup", vs |-> << >>] >>
    [] T.k = "udt" ->
         LET full == [i \in 1..Len(T.fs) |-> Two(T.fs[i].t)[1]]
             alt == [i \in 1..Len(T.fs) |-> IF i % 2 = 1 THEN Null0 ELSE Two(T.fs[i].t)[Len(Two(T.fs[i].t))]] IN
         << [k |-> "udt", vs |-> full], [k |-> "udt", vs |-> alt], [k |-> "udt", vs |-> SubSeq(full, 1, Len(full) - 1)] >>
         \* a value that does not list a field in the middle (dynamic carrier only): that slot is null, the later ones keep their place
         \o (IF Len(T.fs) >= 3 THEN << [k |-> "udt", vs |-> [full EXCEPT ![2] = [k |-> "absent"]]], [k |-> "udt", vs |-> [full EXCEPT ![1] = [k |-> "absent"]]] >> ELSE << >>)
    [] T.k = "vector" ->
         LET e == Two(T.e)
             z == ZeroLen(T.e) IN      \* a zero-length element (empty string / blob) in first and in last position
         << [k |-> "seq", vs |-> [i \in 1..T.d |-> e[1]]], [k |-> "seq", vs |-> [i \in 1..T.d |-> IF i % 2 = 1 THEN e[Len(e)] ELSE e[1]]] >>
         \o (IF Len(z) = 0 THEN << >>
             ELSE << [k |-> "seq", vs |-> [i \in 1..T.d |-> IF i = T.d THEN z[1] ELSE e[1]]],
                     [k |-> "seq", vs |-> [i \in 1..T.d |-> IF i = 1 THEN z[1] ELSE e[1]]] >>)

L(e) == [k |-> "list", e |-> e]
St(e) == [k |-> "set", e |-> e]
M(a, b) == [k |-> "map", a |-> a, b |-> b]
Tp(ts) == [k |-> "tuple", ts |-> ts]
U(fs) == [k |-> "udt", fs |-> fs]
F(n, t) == [n |-> n, t |-> t]
V(e, d) == [k |-> "vector", e |-> e, d |-> d]

=============================================================================
