SPECIFICATION Spec
CONSTANTS Full = FALSE
INVARIANTS Emit
CHECK_DEADLOCK FALSE
