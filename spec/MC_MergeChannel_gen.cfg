SPECIFICATION Spec
CONSTANTS
  MaxPush = 1
  MaxClear = 0
  MaxNoop = 0
  MaxRecv = 2
  MaxCancel = 1
  MaxTry = 0
  AllowSDrop = TRUE
  AllowRDrop = FALSE
  DropNotifyFirst = FALSE
  RecheckAfterFlag = TRUE
  EnableFirst = TRUE
  Atomic = FALSE
INVARIANTS TypeOK ExactlyOnceInOrder NoneOnlyAtEnd NoLostWakeup Emit
CHECK_DEADLOCK FALSE
