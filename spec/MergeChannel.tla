----------------------------- MODULE MergeChannel -----------------------------
(***************************************************************************)
(* Implementation-shaped model of scylla::cluster::metadata::merge_channel *)
(* (single producer, single consumer, capacity one, merge-on-send) on top  *)
(* of a single-waiter model of tokio::sync::Notify (tokio 1.53).           *)
(*                                                                         *)
(* One action per code segment between two consecutive hook points of the  *)
(* real code (see DESIGN.md, C19): a "step" of a thread in this model is   *)
(* exactly what the real thread executes when the gate lets it run from    *)
(* one hook event to the next.  The producer/consumer choose their next    *)
(* operation nondeterministically; `sched` records the choices so that a   *)
(* behaviour can be forced onto real threads.                              *)
(***************************************************************************)
EXTENDS Naturals, Sequences, TLC

CONSTANTS MaxPush,      \* number of modify(push x) calls
          MaxClear,     \* number of modify(clear) calls
          MaxNoop,      \* number of modify(|_| ()) calls
          MaxRecv,      \* number of recv() calls started
          MaxCancel,    \* number of cancelled recv() futures
          MaxTry,       \* number of try_recv() calls
          AllowSDrop,   \* sender may be dropped
          AllowRDrop,   \* receiver may be dropped
          \* Micro-step programs (learnt from the hooks of the tree under test):
          DropNotifyFirst,   \* TRUE = Drop for Sender notifies BEFORE storing the flag (bug)
          RecheckAfterFlag,  \* FALSE = recv returns None without re-checking the slot (bug)
          EnableFirst,       \* FALSE = recv inspects the slot before enable()
          Atomic             \* TRUE = operations run to completion (poll-granular schedules)

VARIABLES slot,         \* pending merged value: sequence of update ids; << >> = None
          sDropped, rDropped,
          nstate,       \* Notify state: "E" empty, "W" waiting, "N" notified (permit)
          fut,          \* the consumer's Notified future: "none" | "waiting" | "done"
          futNotif,     \* the waiter was notified by notify_one (and removed from the list)
          waker,        \* a waker is registered in the waiter
          woken,        \* the consumer task's waker was invoked since it last parked
          ppc, pkind, pres,
          cpc, cval,
          nextId, merged, received, gotNone, nPush, nClear, nNoop, nRecv, nCancel, nTry,
          sched

vars == <<slot, sDropped, rDropped, nstate, fut, futNotif, waker, woken, ppc, pkind, pres,
          cpc, cval, nextId, merged, received, gotNone, nPush, nClear, nNoop, nRecv, nCancel, nTry, sched>>

notifyVars == <<nstate, fut, futNotif, waker, woken>>
ghostVars == <<nextId, merged, received, gotNone>>
countVars == <<nPush, nClear, nNoop, nRecv, nCancel, nTry>>

Init ==
  /\ slot = << >> /\ sDropped = FALSE /\ rDropped = FALSE
  /\ nstate = "E" /\ fut = "none" /\ futNotif = FALSE /\ waker = FALSE /\ woken = FALSE
  /\ ppc = "idle" /\ pkind = "none" /\ pres = "none"
  /\ cpc = "idle" /\ cval = << >>
  /\ nextId = 1 /\ merged = << >> /\ received = << >> /\ gotNone = FALSE
  /\ nPush = 0 /\ nClear = 0 /\ nNoop = 0 /\ nRecv = 0 /\ nCancel = 0 /\ nTry = 0
  /\ sched = << >>

Log(e) == sched' = Append(sched, e)

(***************************** tokio Notify ********************************)
\* notify_one(): wake the waiter if there is one, otherwise leave a permit.
NotifyOne ==
  IF nstate = "W"
  THEN /\ nstate' = "E" /\ futNotif' = TRUE /\ fut' = fut
       /\ woken' = (woken \/ waker) /\ waker' = FALSE
  ELSE /\ nstate' = "N" /\ UNCHANGED <<fut, futNotif, waker, woken>>

\* notified() followed by enable(): consume a permit or join the wait list.
EnableNew ==
  IF nstate = "N"
  THEN /\ nstate' = "E" /\ fut' = "done" /\ futNotif' = FALSE /\ waker' = FALSE
  ELSE /\ nstate' = "W" /\ fut' = "waiting" /\ futNotif' = FALSE /\ waker' = FALSE

\* drop of the Notified future.  A waiter that was notified by notify_one but
\* never polled to completion forwards the notification (it becomes a permit).
DropFut ==
  /\ fut' = "none" /\ waker' = FALSE /\ futNotif' = FALSE
  /\ nstate' = IF fut = "waiting" THEN (IF futNotif THEN "N" ELSE "E") ELSE nstate

\* poll-granular mode: a thread in the middle of an operation runs to its end first
PMid == ppc \notin {"idle", "gone"}
CMid == cpc \notin {"idle", "gone", "parked"}
POk == ~Atomic \/ ~CMid
COk == ~Atomic \/ ~PMid

(******************************* producer **********************************)
PStart(k) ==
  /\ POk
  /\ ppc = "idle" /\ ~sDropped
  /\ \/ /\ k = "push"  /\ nPush < MaxPush   /\ nPush' = nPush + 1 /\ UNCHANGED <<nClear, nNoop>>
     \/ /\ k = "clear" /\ nClear < MaxClear /\ nClear' = nClear + 1 /\ UNCHANGED <<nPush, nNoop>>
     \/ /\ k = "noop"  /\ nNoop < MaxNoop   /\ nNoop' = nNoop + 1 /\ UNCHANGED <<nPush, nClear>>
  \* first segment of modify(): load receiver_dropped
  /\ pkind' = k
  /\ IF rDropped THEN ppc' = "m_ret" /\ pres' = "err" ELSE ppc' = "m_lock" /\ pres' = "ok"
  /\ Log("P:" \o k)
  /\ UNCHANGED <<slot, sDropped, rDropped, notifyVars, cpc, cval, ghostVars, nRecv, nCancel, nTry>>

PLock ==
  /\ POk
  /\ ppc = "m_lock"
  /\ \/ /\ pkind = "push"
        /\ slot' = Append(slot, nextId) /\ merged' = Append(merged, nextId) /\ nextId' = nextId + 1
     \/ /\ pkind = "clear"
        /\ slot' = << >> /\ merged' = SubSeq(merged, 1, Len(merged) - Len(slot)) /\ nextId' = nextId
     \/ /\ pkind = "noop" /\ UNCHANGED <<slot, merged, nextId>>
  /\ ppc' = IF slot' # << >> THEN "m_notify" ELSE "m_ret"
  /\ Log("P")
  /\ UNCHANGED <<sDropped, rDropped, notifyVars, pkind, pres, cpc, cval, received, gotNone, countVars>>

PNotify ==
  /\ POk
  /\ ppc = "m_notify"
  /\ NotifyOne
  /\ ppc' = "m_ret"
  /\ Log("P")
  /\ UNCHANGED <<slot, sDropped, rDropped, pkind, pres, cpc, cval, ghostVars, countVars>>

PRet ==
  /\ POk
  /\ ppc \in {"m_ret", "d_ret"}
  /\ ppc' = IF ppc = "d_ret" THEN "gone" ELSE "idle"
  /\ Log("P")
  /\ UNCHANGED <<slot, sDropped, rDropped, notifyVars, pkind, pres, cpc, cval, ghostVars, countVars>>

\* Drop for Sender: two segments, in the learnt order.
PDropStart ==
  /\ POk
  /\ ppc = "idle" /\ AllowSDrop /\ ~sDropped /\ pkind' = "drop" /\ pres' = "none"
  /\ IF DropNotifyFirst
     THEN NotifyOne /\ UNCHANGED sDropped
     ELSE sDropped' = TRUE /\ UNCHANGED notifyVars
  /\ ppc' = "d_second"
  /\ Log("P:drop")
  /\ UNCHANGED <<slot, rDropped, cpc, cval, ghostVars, countVars>>

PDropSecond ==
  /\ POk
  /\ ppc = "d_second"
  /\ IF DropNotifyFirst
     THEN sDropped' = TRUE /\ UNCHANGED notifyVars
     ELSE NotifyOne /\ UNCHANGED sDropped
  /\ ppc' = "d_ret"
  /\ Log("P")
  /\ UNCHANGED <<slot, rDropped, pkind, pres, cpc, cval, ghostVars, countVars>>

(******************************* consumer **********************************)
\* Take the slot.
TakeInto(nextpcSome, nextpcNone) ==
  /\ cval' = slot /\ slot' = << >>
  /\ cpc' = IF slot # << >> THEN nextpcSome ELSE nextpcNone

CStartRecv ==
  /\ COk
  /\ cpc = "idle" /\ ~rDropped /\ nRecv < MaxRecv /\ nRecv' = nRecv + 1
  /\ IF EnableFirst
     THEN EnableNew /\ cpc' = "enabled" /\ UNCHANGED <<slot, cval, woken>>
     ELSE TakeInto("got0", "none0") /\ UNCHANGED notifyVars   \* inspect first (no future yet)
  /\ Log("C:recv")
  /\ UNCHANGED <<sDropped, rDropped, ppc, pkind, pres, ghostVars, nPush, nClear, nNoop, nCancel, nTry>>

\* (EnableFirst = FALSE only) after an early take that found nothing: enable
CEnableLate ==
  /\ COk
  /\ cpc = "none0" /\ EnableNew /\ cpc' = "none1"
  /\ Log("C")
  /\ UNCHANGED <<slot, sDropped, rDropped, woken, ppc, pkind, pres, cval, ghostVars, countVars>>

CTake1 ==
  /\ COk
  /\ cpc = "enabled"
  /\ TakeInto("got", "none1")
  /\ Log("C")
  /\ UNCHANGED <<sDropped, rDropped, notifyVars, ppc, pkind, pres, ghostVars, countVars>>

\* return Some(value); the Notified future (if any) is dropped
CRetSome ==
  /\ COk
  /\ cpc \in {"got", "got0"}
  /\ DropFut /\ UNCHANGED woken
  /\ received' = received \o cval
  /\ cpc' = "idle"
  /\ Log("C")
  /\ UNCHANGED <<slot, sDropped, rDropped, ppc, pkind, pres, cval, nextId, merged, gotNone, countVars>>

CFlag ==
  /\ COk
  /\ cpc = "none1"
  /\ cpc' = IF sDropped THEN "flag1" ELSE "flag0"
  /\ Log("C")
  /\ UNCHANGED <<slot, sDropped, rDropped, notifyVars, ppc, pkind, pres, cval, ghostVars, countVars>>

\* sender gone: re-check the slot once and return whatever is there
CRetAfterFlag ==
  /\ COk
  /\ cpc = "flag1"
  /\ IF RecheckAfterFlag
     THEN /\ cval' = slot /\ slot' = << >>
          /\ received' = received \o slot
          /\ gotNone' = (gotNone \/ slot = << >>)
     ELSE /\ cval' = << >> /\ UNCHANGED <<slot, received>> /\ gotNone' = TRUE
  /\ DropFut /\ UNCHANGED woken
  /\ cpc' = "idle"
  /\ Log("C")
  /\ UNCHANGED <<sDropped, rDropped, ppc, pkind, pres, nextId, merged, countVars>>

\* notified.await: poll the Notified future
CAwait ==
  /\ COk
  /\ \/ cpc = "flag0"
     \/ cpc = "parked" /\ woken
  /\ IF fut = "done" \/ (fut = "waiting" /\ futNotif)
     THEN /\ fut' = "done" /\ futNotif' = FALSE /\ waker' = FALSE /\ woken' = FALSE
          /\ cpc' = "woken" /\ UNCHANGED nstate
     ELSE /\ waker' = TRUE /\ woken' = FALSE /\ cpc' = "parked" /\ UNCHANGED <<nstate, fut, futNotif>>
  /\ Log(IF cpc = "parked" THEN "Cw" ELSE "C")
  /\ UNCHANGED <<slot, sDropped, rDropped, ppc, pkind, pres, cval, ghostVars, countVars>>

\* next loop iteration: old Notified dropped (Done), new one created
CLoop ==
  /\ COk
  /\ cpc = "woken"
  /\ IF EnableFirst
     THEN /\ EnableNew /\ cpc' = "enabled" /\ UNCHANGED <<slot, cval, woken>>
     ELSE /\ fut' = "none" /\ UNCHANGED <<nstate, futNotif, waker, woken>> /\ TakeInto("got0", "none0")
  /\ Log("C")
  /\ UNCHANGED <<sDropped, rDropped, ppc, pkind, pres, ghostVars, countVars>>

\* the recv() future is dropped while pending (e.g. it lost a select!)
CCancel ==
  /\ COk
  /\ cpc = "parked" /\ nCancel < MaxCancel /\ nCancel' = nCancel + 1
  /\ DropFut /\ woken' = FALSE
  /\ cpc' = "idle"
  /\ Log("Cx")
  /\ UNCHANGED <<slot, sDropped, rDropped, ppc, pkind, pres, cval, ghostVars, nPush, nClear, nNoop, nRecv, nTry>>

CTry ==
  /\ COk
  /\ cpc = "idle" /\ ~rDropped /\ nTry < MaxTry /\ nTry' = nTry + 1
  /\ cval' = slot /\ slot' = << >> /\ received' = received \o slot
  /\ Log("C:try")
  /\ UNCHANGED <<sDropped, rDropped, notifyVars, ppc, pkind, pres, cpc, nextId, merged, gotNone, nPush, nClear, nNoop, nRecv, nCancel>>

CDropReceiver ==
  /\ COk
  /\ cpc = "idle" /\ AllowRDrop /\ ~rDropped
  /\ rDropped' = TRUE /\ cpc' = "gone"
  /\ Log("C:drop")
  /\ UNCHANGED <<slot, sDropped, notifyVars, ppc, pkind, pres, cval, ghostVars, countVars>>

PNext == \E k \in {"push", "clear", "noop"} : PStart(k)
         \/ PLock \/ PNotify \/ PRet \/ PDropStart \/ PDropSecond
CNext == CStartRecv \/ CEnableLate \/ CTake1 \/ CRetSome \/ CFlag \/ CRetAfterFlag \/ CAwait \/ CLoop
         \/ CCancel \/ CTry \/ CDropReceiver
Next == PNext \/ CNext

Spec == Init /\ [][Next]_vars /\ WF_vars(PLock \/ PNotify \/ PRet \/ PDropSecond)
             /\ WF_vars(CEnableLate \/ CTake1 \/ CRetSome \/ CFlag \/ CRetAfterFlag \/ CAwait \/ CLoop)

(****************************** properties *********************************)
PQuiescent == ppc \in {"idle", "gone"}
CParked == cpc = "parked" /\ ~woken

TypeOK ==
  /\ nstate \in {"E", "W", "N"} /\ fut \in {"none", "waiting", "done"}
  /\ (nstate = "W") <=> (fut = "waiting" /\ ~futNotif)

\* every update merged in is in exactly one received value or still pending, in order
ExactlyOnceInOrder ==
  LET inHand == IF cpc \in {"got", "got0"} THEN cval ELSE << >>
  IN received \o inHand \o slot = merged

\* the consumer learns of the producer's disappearance only after the last value
NoneOnlyAtEnd == gotNone => (sDropped /\ received = merged)

\* no lost wake-up: a parked consumer with something to see has a wake-up coming
NoLostWakeup == (CParked /\ PQuiescent) => (slot = << >> /\ ~sDropped)

\* the producer learns when the consumer is gone (checked at the flag load)
ProducerLearns == (ppc = "m_lock") => TRUE

\* liveness: a pending value is eventually received unless the receiver stops receiving
Done == PQuiescent /\ cpc \in {"idle", "gone", "parked"} /\ ~ENABLED Next
=============================================================================
