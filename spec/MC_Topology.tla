----------------------------- MODULE MC_Topology -----------------------------
(* Scripts for Topology: an initial membership and up to MaxOps enabled         *)
(* operations, a check after every operation.  Grown step by step (simulation   *)
(* draws random ones; exhaustive for small MaxOps).                             *)
EXTENDS Topology, TLC, Json
CONSTANTS MaxOps
VARIABLES init, t, ops, fin
vars == <<init, t, ops, fin>>
Kinds == {"add", "remove", "replace", "movedc"}
Init == /\ init \in SUBSET {1, 2, 3} /\ t = Init0(init) /\ ops = << >> /\ fin = FALSE
Step == /\ ~fin /\ Len(ops) < 2 * MaxOps
        /\ \E k \in Kinds : \E n \in 1..3 : LET op == [op |-> k, n |-> n] IN
             /\ Enabled(t, op)
             /\ t' = Apply(t, op)
             /\ ops' = ops \o <<op, [op |-> "check", n |-> 0]>>
        /\ UNCHANGED <<init, fin>>
End == ~fin /\ Len(ops) >= 2 /\ fin' = TRUE /\ UNCHANGED <<init, t, ops>>
Next == Step \/ End
Spec == Init /\ [][Next]_vars
SetToSeq(S) == LET n == Cardinality(S) IN IF n = 0 THEN << >> ELSE [i \in 1..n |-> CHOOSE x \in S : Cardinality({y \in S : y < x}) = i - 1]
Emit == fin => PrintT(<<"TOPO", ToJson([init |-> SetToSeq(init), ops |-> <<[op |-> "check", n |-> 0]>> \o ops])>>)
=============================================================================
