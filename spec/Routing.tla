------------------------------- MODULE Routing -------------------------------
(***************************************************************************)
(* C12 — where the first attempt of a token-aware request must go.         *)
(* Composition of the references proved / validated elsewhere:             *)
(*   token of the key      Murmur3.tla (C03)                               *)
(*   replicas of the token Replicas.tla (C04)                              *)
(*   shard of the token    Sharding.tla (C11)                              *)
(*   tablets               the tablet covering the token (C15)             *)
(* A layout gives every node ring positions p in 1..15; its tokens are     *)
(* p * 2^60 - 2^63, so the ring slot of a 64-bit token is read off its     *)
(* top byte.  FirstOK(sc, e) says whether the first frame of execution e   *)
(* went to a permitted place.                                              *)
(***************************************************************************)
EXTENDS Replicas, Sharding, Integers

\* ring slot (query position for Replicas.CW) of a token given as 8 LE limbs of the two's-complement i64
Slot(t) == LET b == (t[8] + 128) % 256
               exact == (b % 16 = 0) /\ \A i \in 1..7 : t[i] = 0
           IN IF exact THEN b \div 16 ELSE (b \div 16) + 1
Grid(p) == <<0, 0, 0, 0, 0, 0, 0, (p * 16 + 128) % 256>>
\* signed comparison of two tokens (limbs): compare the biased values from the most significant limb down
RECURSIVE LeqFrom(_, _, _)
LeqFrom(a, b, i) == IF i = 0 THEN TRUE ELSE IF a[i] < b[i] THEN TRUE ELSE IF a[i] > b[i] THEN FALSE ELSE LeqFrom(a, b, i - 1)
Leq(a, b) == LeqFrom(Bias(a), Bias(b), 8)
Lt(a, b) == Leq(a, b) /\ a # b

RECURSIVE SortByPos(_)
SortByPos(S) == IF S = {} THEN << >> ELSE LET m == CHOOSE x \in S : \A y \in S : x[1] <= y[1] IN <<m>> \o SortByPos(S \ {m})
\* the ring: sequence of <<position, node>> sorted by position
RingOf(nodes) == SortByPos(UNION {{<<nodes[i].pos[j], i>> : j \in DOMAIN nodes[i].pos} : i \in 1..Len(nodes)})
AttrOf(nodes) == [i \in 1..Len(nodes) |-> <<nodes[i].dc, nodes[i].rack>>]
Up(nodes) == {i \in 1..Len(nodes) : nodes[i].up = 1}
\* nodes the load-balancing configuration permits: a preferred datacentre without failover confines requests to it
Permitted(sc) == IF sc.policy.prefer_dc # "" /\ sc.policy.failover = 0
                 THEN {i \in 1..Len(sc.nodes) : sc.nodes[i].dc = sc.policy.prefer_dc} ELSE 1..Len(sc.nodes)
HasConn(conns, node, shard) == \E i \in 1..Len(conns) : conns[i].node = node - 1 /\ conns[i].shard = shard /\ conns[i].count >= 1

\* vnode-based table: frame = [node (0-based), shard]
VnodeOK(sc, conns, tok, frame) ==
  LET reps == ReplicaSetOf(RingOf(sc.nodes), AttrOf(sc.nodes), Slot(tok), sc.strat)
      cand == reps \cap Up(sc.nodes) \cap Permitted(sc)
      pref == {i \in cand : sc.nodes[i].dc = sc.policy.prefer_dc}
      n == frame.node + 1 IN
  cand # {} =>
    /\ n \in (IF sc.policy.prefer_dc # "" /\ pref # {} THEN pref ELSE cand)
    /\ LET nd == sc.nodes[n] IN
       nd.shards > 0 => LET s == ShardOf(tok, nd.shards, nd.msb) IN HasConn(conns, n, s) => frame.shard = s

\* tablet table, tablet known to the driver: replicas are <<node (0-based), shard>> pairs
TabletOf(sc, tok) == CHOOSE i \in 1..Len(sc.tablets) : Lt(sc.tablets[i].first, tok) /\ Leq(tok, sc.tablets[i].last)
TabletOK(sc, conns, tok, frame) ==
  LET tb == sc.tablets[TabletOf(sc, tok)]
      cand == {j \in 1..Len(tb.replicas) : (tb.replicas[j][1] + 1) \in Up(sc.nodes) \cap Permitted(sc)} IN
  cand # {} =>
    \E j \in cand : /\ frame.node = tb.replicas[j][1]
                    /\ (HasConn(conns, frame.node + 1, tb.replicas[j][2]) => frame.shard = tb.replicas[j][2])
\* a request for a tablet table that did not arrive at a replica of its tablet is answered with the tablet (feedback)
Misrouted(sc, tok, frame) ==
  LET tb == sc.tablets[TabletOf(sc, tok)] IN
  ~\E j \in 1..Len(tb.replicas) : frame.node = tb.replicas[j][1] /\ (frame.shard = tb.replicas[j][2] \/ frame.shard = -1)
=============================================================================
