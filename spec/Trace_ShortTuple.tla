--------------------------- MODULE Trace_ShortTuple ---------------------------
(* Judge for `vh-cql c01-short`: per case and shape ("tuple" / "list of two"), got[i] = 1 the element came back as its value, *)
(* 0 as null, 2 as another value; ok = 0 the decode was refused.  Required: accepted, and got = want (for the list: both).    *)
EXTENDS Naturals, Sequences, Json, IOUtils, TLC
Rec == ndJsonDeserialize(IOEnv.TRACE)
VARIABLE l
OK(r) == r.panic = 0 /\ r.ok = 1 /\ r.got = r.want /\ (r.shape = "list" => r.got2 = r.want)
TraceInit == l = 1 /\ TLCSet(1, 1)
TraceNext == l <= Len(Rec) /\ (IF OK(Rec[l]) THEN TRUE ELSE PrintT(<<"BAD", l>>)) /\ l' = l + 1
TraceSpec == TraceInit /\ [][TraceNext]_l
Progress == TLCSet(1, IF l > TLCGet(1) THEN l ELSE TLCGet(1))
TraceAccepted == IF TLCGet(1) = Len(Rec) + 1 THEN TRUE ELSE PrintT(<<"REJECTED at line", TLCGet(1)>>) /\ FALSE
=============================================================================
