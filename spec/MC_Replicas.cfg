SPECIFICATION Spec
CONSTANTS MaxNodes = 4
INVARIANTS SimpleLemma NtsLemma Emit
CHECK_DEADLOCK FALSE
