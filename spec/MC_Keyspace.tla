----------------------------- MODULE MC_Keyspace -----------------------------
(* Scripts for C20's conformance run: use-keyspace calls, bursts of requests,   *)
(* connection kills (FIN / RST, one / all), node restarts, node additions and   *)
(* concurrent use + requests, under 3 cluster shapes and 3 USE-answer delays;   *)
(* and the candidate keyspace names for the validation part.                    *)
EXTENDS Naturals, Sequences, TLC, Json
Shapes == { [nodes |-> <<[shards |-> 0], [shards |-> 0]>>, pool |-> [kind |-> "per_host", n |-> 2]],
            [nodes |-> <<[shards |-> 2], [shards |-> 2]>>, pool |-> [kind |-> "per_shard", n |-> 1]],
            [nodes |-> <<[shards |-> 0], [shards |-> 2], [shards |-> 0]>>, pool |-> [kind |-> "per_host", n |-> 1]] }
Disrupt == { <<>>, <<[op |-> "kill", node |-> 0, which |-> "all", rst |-> 1]>>, <<[op |-> "kill", node |-> 1, which |-> "all", rst |-> 0]>>,
             <<[op |-> "kill", node |-> 0, which |-> "one", rst |-> 0]>>, <<[op |-> "restart", node |-> 1]>>, <<[op |-> "restart", node |-> 0]>>,
             <<[op |-> "add_node"]>>, <<[op |-> "add_node"], [op |-> "kill", node |-> 0, which |-> "one", rst |-> 1]>>,
             <<[op |-> "kill", node |-> 0, which |-> "all", rst |-> 0], [op |-> "kill", node |-> 1, which |-> "all", rst |-> 1]>> }
Req(n) == <<[op |-> "req", n |-> n]>>
Sleep(m) == <<[op |-> "sleep", ms |-> m]>>
Script(sh, d, x, y) ==
  [nodes |-> sh.nodes, pool |-> sh.pool, use_delay_ms |-> d,
   steps |-> Req(2) \o <<[op |-> "use", ks |-> "ks1"]>> \o Req(6) \o x \o Req(6) \o Sleep(15) \o Req(6) \o Sleep(250) \o Req(6)
             \o <<[op |-> "use_and_req", ks |-> "ks2", n |-> 6]>> \o y \o Req(6) \o Sleep(20) \o Req(6) \o Sleep(300) \o Req(6)
             \o <<[op |-> "use", ks |-> "ks3"]>> \o Req(6)]
\* ---- candidate names (character codes) ----
Rep(c, n) == [i \in 1..n |-> c]
Specials == {32, 34, 39, 59, 45, 46, 233, 95, 65, 48, 47, 42}
Names == {Rep(97, n) : n \in {0, 1, 2, 47, 48, 49, 60}}
  \cup {[Rep(97, n) EXCEPT ![p] = s] : n \in {1, 2, 48}, p \in {1, 2, 48}, s \in Specials}
  \cup {<<107, 115, 49>>, <<75, 115, 95, 49>>, <<95, 107>>, <<49, 50, 51>>, <<107, 115, 49, 59, 32, 68, 82, 79, 80>>, <<107, 34, 59, 45, 45>>}
VARIABLE c
\* the keyspace is set while a node is down; the node comes back later and its fresh connections must be in the keyspace
DownScript(sh, d, n, w) ==
  [nodes |-> sh.nodes, pool |-> sh.pool, use_delay_ms |-> d,
   steps |-> Req(2) \o <<[op |-> "stop", node |-> n]>> \o Sleep(w) \o <<[op |-> "use", ks |-> "ks1"]>> \o Req(4) \o <<[op |-> "start", node |-> n]>>
             \o Sleep(30) \o Req(8) \o Sleep(400) \o Req(8) \o Sleep(1500) \o Req(8)]
\* a node rejects the first USE (e.g. it does not know the keyspace yet): the call fails; the caller retries with the same name
RejectScript(sh, k) ==
  [nodes |-> sh.nodes, pool |-> sh.pool, use_delay_ms |-> 0, use_reject |-> k,
   steps |-> Req(2) \o <<[op |-> "use", ks |-> "ks1"], [op |-> "use", ks |-> "ks1"]>> \o Req(8) \o Sleep(100) \o Req(8)
             \o <<[op |-> "use", ks |-> "ks2"]>> \o Req(8)]
\* one node answers USE only long after the connection timeout: the call must not report success while that node's
\* connections are still outside the keyspace
SlowScript(sh, n) ==
  [nodes |-> sh.nodes, pool |-> sh.pool, use_delay_ms |-> 0, slow_use_node |-> n, slow_use_ms |-> 1200, conn_timeout_ms |-> 300,
   steps |-> Req(2) \o <<[op |-> "use", ks |-> "ks1"]>> \o Req(12) \o Sleep(100) \o Req(12) \o Sleep(1500) \o Req(6)]
\* the application runs the statement USE "Ks1" itself (a name that only quoting preserves); USE answered by a RESULT that is
\* no error yet acknowledges nothing; a member that owns no tokens
RawScript(sh, d) ==
  [nodes |-> sh.nodes, pool |-> sh.pool, use_delay_ms |-> d,
   steps |-> Req(2) \o <<[op |-> "use", ks |-> "Ks1", raw |-> 1]>> \o Req(8) \o Sleep(100) \o Req(8) \o <<[op |-> "use", ks |-> "ks2"]>> \o Req(8)
             \o <<[op |-> "use", ks |-> "KS3", raw |-> 1]>> \o <<[op |-> "kill", node |-> 0, which |-> "all", rst |-> 1]>> \o Req(6) \o Sleep(300) \o Req(6)]
VoidScript(sh, k) ==
  [nodes |-> sh.nodes, pool |-> sh.pool, use_delay_ms |-> 0, use_void |-> k,
   steps |-> Req(2) \o <<[op |-> "use", ks |-> "ks1"]>> \o Req(12) \o Sleep(100) \o Req(12) \o <<[op |-> "use", ks |-> "ks2"]>> \o Req(8)]
ZeroTokenScript(sh, d, x) == Script(sh, d, x, << >>) @@ [zero_token |-> Len(sh.nodes) - 1]
Init == \/ \E sh \in Shapes : \E d \in {0, 30} : c = [t |-> "script", s |-> RawScript(sh, d)]
        \/ \E sh \in Shapes : \E k \in {1, 2} : c = [t |-> "script", s |-> VoidScript(sh, k)]
        \/ \E sh \in Shapes : \E d \in {0, 30} : \E x \in {<< >>, <<[op |-> "restart", node |-> 1]>>} : c = [t |-> "script", s |-> ZeroTokenScript(sh, d, x)]
        \/ \E sh \in Shapes : \E d \in {0, 30, 80} : \E x \in Disrupt : \E y \in Disrupt : c = [t |-> "script", s |-> Script(sh, d, x, y)]
        \/ \E sh \in Shapes : \E k \in {1, 2} : c = [t |-> "script", s |-> RejectScript(sh, k)]
        \/ \E sh \in Shapes : \E n \in {0, 1} : c = [t |-> "script", s |-> SlowScript(sh, n)]
        \/ \E sh \in Shapes : \E d \in {0, 30} : \E w \in {50, 300} : c = [t |-> "script", s |-> DownScript(sh, d, 1, w)]
        \/ \E nm \in {n \in Names : Len(n) = 0 \/ \A i \in DOMAIN n : TRUE} : \E cs \in {0, 1} : c = [t |-> "name", name |-> nm, cs |-> cs]
Next == UNCHANGED c
Spec == Init /\ [][Next]_c
Emit == PrintT(<<"C20", ToJson(c)>>)
=============================================================================
