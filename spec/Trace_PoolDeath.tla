--------------------------- MODULE Trace_PoolDeath ---------------------------
EXTENDS Naturals, Sequences, Json, IOUtils, TLC
Rec == ndJsonDeserialize(IOEnv.TRACE)
VARIABLE l
\* r.settled: the requests of the steps marked settled, each [ok, nframes]
ScriptOK(r) == /\ r.start_err = ""
               /\ \A i \in 1..Len(r.settled) : r.settled[i].ok = 1 /\ r.settled[i].nframes >= 1
TraceInit == l = 1 /\ TLCSet(1, 1)
TraceNext == l <= Len(Rec) /\ (IF ScriptOK(Rec[l]) THEN TRUE ELSE PrintT(<<"BAD", l>>)) /\ l' = l + 1
TraceSpec == TraceInit /\ [][TraceNext]_l
Progress == TLCSet(1, IF l > TLCGet(1) THEN l ELSE TLCGet(1))
TraceAccepted == IF TLCGet(1) = Len(Rec) + 1 THEN TRUE ELSE PrintT(<<"REJECTED at line", TLCGet(1)>>) /\ FALSE
=============================================================================
