--------------------------- MODULE MC_PreparedHist ---------------------------
(* Histories for C14's conformance run: executions (unpaged, paged, batch,     *)
(* another prepare) on either node interleaved with the server events evict,   *)
(* alter, alter+evict and id change, under every extension / skip-metadata     *)
(* configuration.  Shape: op ev op ev op [ev op] with "no event" allowed.      *)
EXTENDS Naturals, Sequences, TLC, Json
CONSTANTS Full
Ops == {[op |-> "exec", node |-> 0], [op |-> "exec", node |-> 1], [op |-> "exec_paged", node |-> 0], [op |-> "batch", node |-> 0]}
     \cup (IF Full THEN {[op |-> "exec_paged", node |-> 1], [op |-> "batch", node |-> 1]} ELSE {})
Evs == {[ev |-> "no"], [ev |-> "evict", node |-> 0], [ev |-> "evict", node |-> 1], [ev |-> "alter"], [ev |-> "alter_evict"], [ev |-> "rename_evict"], [ev |-> "idchange", node |-> 0]}
Cfgs == {[ext |-> e, skip |-> s] : e \in {<<1, 1>>, <<0, 0>>, <<1, 0>>, <<0, 1>>}, s \in {0, 1}}
\* without the extension and with skip-metadata the protocol cannot tell the client that the columns changed while the statement stays prepared
Expressible(cf, ev) == ~(ev.ev = "alter" /\ cf.skip = 1 /\ 0 \in {cf.ext[1], cf.ext[2]})
WithPk(o, k) == IF o.op = "prepare" THEN o ELSE [op |-> o.op, node |-> o.node, pk |-> k]
Hist(cf, a, e1, b, e2, c, tail) ==
  [ext |-> cf.ext, skip |-> cf.skip,
   steps |-> SelectSeq(<<WithPk(a, 1), e1, WithPk(b, 2), e2, WithPk(c, 3)>> \o tail, LAMBDA x : ~("ev" \in DOMAIN x /\ x.ev = "no"))]
VARIABLE h
Pick(i) == Full \/ i % 5 = 0
Init == \E cf \in Cfgs : \E a \in Ops : \E e1 \in Evs : \E b \in Ops : \E e2 \in Evs : \E c \in Ops :
          /\ Expressible(cf, e1) /\ Expressible(cf, e2)
          /\ \/ h = Hist(cf, a, e1, b, e2, c, << >>)
             \/ (e2.ev = "idchange" /\ h = Hist(cf, a, e1, b, e2, c, <<[op |-> "prepare"]>>))
Next == UNCHANGED h
Spec == Init /\ [][Next]_h
Emit == PrintT(<<"HIST", ToJson(h)>>)
=============================================================================
