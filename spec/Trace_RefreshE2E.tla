--------------------------- MODULE Trace_RefreshE2E ---------------------------
(***************************************************************************)
(* C19, user-visible end: "a metadata refresh that was requested is        *)
(* eventually answered, and the published state reflects the latest        *)
(* fetched topology".  One record = one round of `vh-driver c19 refresh`:  *)
(* a node leaves (one refresh), then joins again while several callers     *)
(* request a refresh together; publishing is slow (the consumer waits for  *)
(* the joining node's first connection attempt), so the producer merges    *)
(* several fetched updates - each carrying a requester to answer - into    *)
(* one pending value (merges > taken says so, from the hand-off's hooks).  *)
(*  * every caller is answered (ok), none is dropped, times out or fails;  *)
(*  * afterwards the published state knows every node of the topology.     *)
(***************************************************************************)
EXTENDS Naturals, Sequences, Json, IOUtils, TLC
Rec == ndJsonDeserialize(IOEnv.TRACE)
VARIABLE l
OK(r) ==
  /\ r.leave_refresh_ok = 1
  /\ Len(r.answers) = r.callers
  /\ \A i \in 1..Len(r.answers) : r.answers[i] = "ok"
  /\ r.nodes_known = r.nodes
TraceInit == l = 1 /\ TLCSet(1, 1)
TraceNext == l <= Len(Rec) /\ (IF OK(Rec[l]) THEN TRUE ELSE PrintT(<<"BAD", l>>)) /\ l' = l + 1
TraceSpec == TraceInit /\ [][TraceNext]_l
Progress == TLCSet(1, IF l > TLCGet(1) THEN l ELSE TLCGet(1))
TraceAccepted == IF TLCGet(1) = Len(Rec) + 1 THEN TRUE ELSE PrintT(<<"REJECTED at line", TLCGet(1)>>) /\ FALSE
=============================================================================
