------------------------------- MODULE ByName -------------------------------
(***************************************************************************)
(* C16 — derived row / UDT mappings.  What the four derive macros          *)
(* (SerializeValue, DeserializeValue, SerializeRow, DeserializeRow) must   *)
(* do for a struct, transcribed from their documentation                   *)
(* (scylla-macros/src/lib.rs): flavors match_by_name / enforce_order,      *)
(* skip_name_checks, forbid_excess_udt_fields, rename, skip, allow_missing,*)
(* default_when_null, flatten.                                             *)
(*                                                                         *)
(* A struct is a sequence of field descriptors; the database side is the   *)
(* sequence `db` of [n |-> name, t |-> type] in DATABASE order.            *)
(*   SerExp(S, mode, db, vals)  -> [ok, cells]   cells in database order   *)
(*   DeExp(S, mode, db, wvals)  -> [tc, ok, val] val keyed by Rust field   *)
(* Bytes come from CqlValue.Cell, so the two specifications are one.       *)
(***************************************************************************)
EXTENDS CqlValue, Integers

F(r, n, t) == [r |-> r, n |-> n, t |-> t, opt |-> FALSE, skip |-> FALSE, am |-> FALSE, dn |-> FALSE]
Std == <<F("a", "a", "int"), F("b", "b", "text"), F("c", "c", "bigint"), F("d", "d", "boolean")>>
AllInt == <<F("a", "a", "int"), F("b", "b", "int"), F("c", "c", "int"), F("d", "d", "int")>>
St(fl, snc, forbid, fs) == [flavor |-> fl, snc |-> snc, forbid |-> forbid, fs |-> fs]

\* the fixed family of harness/vh-cql/src/c16_structs.rs; mode \in {"udt","row"}, dir \in {"ser","de"}
Struct(s, mode, dir) ==
  CASE s = "Plain" -> St("name", FALSE, FALSE, Std)
    [] s = "Same" -> St("name", FALSE, FALSE, AllInt)
    [] s = "Opt" -> St("name", FALSE, FALSE, [i \in 1..4 |-> [Std[i] EXCEPT !.opt = TRUE]])
    [] s = "Renamed" -> St("name", FALSE, FALSE, [Std EXCEPT ![2].n = "bb", ![4].n = "a2"])
    [] s = "Skip" -> St("name", FALSE, FALSE, [Std EXCEPT ![3].skip = TRUE])
    [] s = "Ordered" -> St("order", FALSE, FALSE, Std)
    [] s = "OrderedSame" -> St("order", FALSE, FALSE, AllInt)
    [] s = "OrderedNoNames" -> St("order", TRUE, FALSE, AllInt)
    [] s = "Forbid" -> St("name", FALSE, mode = "udt", Std)
    [] s = "OrderedForbid" -> St("order", FALSE, mode = "udt", Std)
    [] s = "AllowMissing" -> St("name", FALSE, FALSE, [Std EXCEPT ![4].am = (mode = "udt" /\ dir = "de")])
    [] s = "DefaultNull" -> St("name", FALSE, FALSE, [Std EXCEPT ![2].dn = (dir = "de")])
    [] s \in {"Flat", "Flat2"} -> St("name", FALSE, FALSE, Std)   \* flatten (one / two levels) = the inner structs' fields inline
    [] s = "OrderedAM" -> St("order", FALSE, FALSE, [Std EXCEPT ![1].am = TRUE, ![2].am = TRUE, ![4].am = TRUE])
    [] s = "NameAM" -> St("name", FALSE, FALSE, [Std EXCEPT ![2].am = TRUE, ![4].am = TRUE])
    [] s = "OrderedAMDN" -> St("order", FALSE, FALSE, [Std EXCEPT ![1].am = TRUE, ![1].dn = (dir = "de"), ![2].opt = TRUE, ![3].am = TRUE,
                                                              ![4].am = TRUE, ![4].dn = (dir = "de")])
    [] s = "OrderedRenamedSkip" -> St("order", FALSE, FALSE, [Std EXCEPT ![2].n = "bb", ![3].skip = TRUE])
Structs == {"Plain", "Same", "Opt", "Renamed", "Skip", "Ordered", "OrderedSame", "OrderedNoNames", "Forbid",
            "OrderedForbid", "AllowMissing", "DefaultNull", "Flat", "Flat2", "OrderedAM", "NameAM", "OrderedRenamedSkip", "OrderedAMDN"}

\* a Rust field type fits a database type (C17's relation restricted to the four field types)
FitsT(t, T) == T.k = "native" /\ (IF t = "text" THEN T.n \in {"text", "ascii"} ELSE T.n = t)

Active(S) == SelectSeq(S.fs, LAMBDA f : ~f.skip)
Pos(db, n) == {i \in 1..Len(db) : db[i].n = n}
FieldOf(fs, n) == {j \in 1..Len(fs) : fs[j].n = n}
One(S) == CHOOSE x \in S : TRUE
Max(S) == IF S = {} THEN 0 ELSE CHOOSE x \in S : \A y \in S : y <= x
Default(f) == IF f.opt THEN [k |-> "null"]
              ELSE CASE f.t \in {"int", "bigint"} -> [k |-> "i", i |-> [neg |-> 0, mag |-> << >>]]
                     [] f.t = "text" -> [k |-> "s", b |-> << >>]
                     [] f.t = "boolean" -> [k |-> "b", v |-> 0]

(******************************* serialization *****************************)
\* match_by_name, UDT: every Rust field needs a like-named UDT field of a fitting type; UDT fields unknown to the
\* struct are sent as null (in the middle) or not at all (at the end) — unless forbidden.
SerUdtName(S, db, vals) ==
  LET fs == Active(S)
      ok == /\ \A j \in 1..Len(fs) : IF Pos(db, fs[j].n) = {} THEN fs[j].am       \* allow_missing: no such UDT field -> not sent
                                     ELSE \E i \in Pos(db, fs[j].n) : FitsT(fs[j].t, db[i].t)
            /\ (S.forbid => \A i \in 1..Len(db) : FieldOf(fs, db[i].n) # {})
      last == Max({i \in 1..Len(db) : FieldOf(fs, db[i].n) # {}})
      cell(i) == IF FieldOf(fs, db[i].n) = {} THEN NullLen ELSE Cell(db[i].t, vals[fs[One(FieldOf(fs, db[i].n))].r])
  IN IF ok THEN [ok |-> 1, cells |-> [i \in 1..last |-> cell(i)], tail |-> Len(db) - last] ELSE [ok |-> 0]

\* enforce_order, UDT: walking both sequences, each Rust field must be the next UDT field (same name unless
\* skip_name_checks, fitting type); an allow_missing field that is not the next UDT field is left out and the UDT field
\* stays for the next Rust field.  Result: <<-1>> = refused, else for every Rust field the UDT position it took (0 = left out).
RECURSIVE Align(_, _, _, _, _)
Align(S, fs, j, db, i) ==
  IF j > Len(fs) THEN << >>
  ELSE IF i > Len(db) THEN (IF fs[j].am THEN S1(Align(S, fs, j + 1, db, i), LAMBDA r : IF r = <<-1>> THEN r ELSE <<0>> \o r) ELSE <<-1>>)
  ELSE IF S.snc \/ db[i].n = fs[j].n
       THEN (IF FitsT(fs[j].t, db[i].t) THEN S1(Align(S, fs, j + 1, db, i + 1), LAMBDA r : IF r = <<-1>> THEN r ELSE <<i>> \o r) ELSE <<-1>>)
  ELSE IF fs[j].am THEN S1(Align(S, fs, j + 1, db, i), LAMBDA r : IF r = <<-1>> THEN r ELSE <<0>> \o r)
  ELSE <<-1>>
Taken(al) == Max({al[j] : j \in 1..Len(al)})
SerUdtOrder(S, db, vals) ==
  LET fs == Active(S)
      al == Align(S, fs, 1, db, 1)
      ok == al # <<-1>> /\ (S.forbid => Taken(al) = Len(db))
      fld(i) == One({j \in 1..Len(fs) : al[j] = i})
  IN IF ok THEN [ok |-> 1, cells |-> [i \in 1..Taken(al) |-> Cell(db[i].t, vals[fs[fld(i)].r])], tail |-> Len(db) - Taken(al)] ELSE [ok |-> 0]

\* rows: the columns / bind markers and the Rust fields must be the same set (by name) resp. the same sequence
SerRowName(S, db, vals) ==
  LET fs == Active(S)
      ok == /\ Len(db) = Len(fs)
            /\ \A j \in 1..Len(fs) : \E i \in Pos(db, fs[j].n) : FitsT(fs[j].t, db[i].t)
            /\ \A i \in 1..Len(db) : FieldOf(fs, db[i].n) # {}
  IN IF ok THEN [ok |-> 1, cells |-> [i \in 1..Len(db) |-> Cell(db[i].t, vals[fs[One(FieldOf(fs, db[i].n))].r])], tail |-> 0] ELSE [ok |-> 0]
SerRowOrder(S, db, vals) ==
  LET fs == Active(S)
      ok == /\ Len(db) = Len(fs)
            /\ \A j \in 1..Len(fs) : (S.snc \/ db[j].n = fs[j].n) /\ FitsT(fs[j].t, db[j].t)
  IN IF ok THEN [ok |-> 1, cells |-> [j \in 1..Len(fs) |-> Cell(db[j].t, vals[fs[j].r])], tail |-> 0] ELSE [ok |-> 0]

SerExp(s, mode, db, vals) ==
  LET S == Struct(s, mode, "ser") IN
  CASE mode = "udt" /\ S.flavor = "name" -> SerUdtName(S, db, vals)
    [] mode = "udt" /\ S.flavor = "order" -> SerUdtOrder(S, db, vals)
    [] mode = "row" /\ S.flavor = "name" -> SerRowName(S, db, vals)
    [] mode = "row" /\ S.flavor = "order" -> SerRowOrder(S, db, vals)

(****************************** deserialization ****************************)
\* what a field becomes given the database value (or "absent")
Got(f, v) == IF v.k = "null" THEN (IF f.dn THEN Default(f) ELSE IF f.opt THEN v ELSE [k |-> "ERR"]) ELSE v
At(wvals, i) == IF i <= Len(wvals) THEN wvals[i] ELSE [k |-> "null"]      \* a UDT value may stop early: the rest is null

Finish(S, tc, src(_)) ==       \* src(f) = database value for the active field f
  IF ~tc THEN [tc |-> 0]
  ELSE LET val == [j \in 1..Len(S.fs) |-> IF S.fs[j].skip THEN Default(S.fs[j]) ELSE Got(S.fs[j], src(S.fs[j]))]
       IN IF \E j \in 1..Len(val) : val[j].k = "ERR" THEN [tc |-> 1, ok |-> 0]
          ELSE [tc |-> 1, ok |-> 1, val |-> val]

DeUdtName(S, db, wvals) ==
  LET fs == Active(S)
      tc == /\ \A j \in 1..Len(fs) : IF Pos(db, fs[j].n) = {} THEN fs[j].am
                                     ELSE \E i \in Pos(db, fs[j].n) : FitsT(fs[j].t, db[i].t)
            /\ (S.forbid => \A i \in 1..Len(db) : FieldOf(fs, db[i].n) # {})
  IN Finish(S, tc, LAMBDA f : IF Pos(db, f.n) = {} THEN Default(f) ELSE At(wvals, One(Pos(db, f.n))))

IndexIn(fs, f) == One({j \in 1..Len(fs) : fs[j].r = f.r})
DeUdtOrder(S, db, wvals) ==
  LET fs == Active(S)
      al == Align(S, fs, 1, db, 1)
      tc == al # <<-1>> /\ (S.forbid => Taken(al) = Len(db))
  IN Finish(S, tc, LAMBDA f : IF al[IndexIn(fs, f)] = 0 THEN Default(f) ELSE At(wvals, al[IndexIn(fs, f)]))

DeRowName(S, db, wvals) ==
  LET fs == Active(S)
      tc == /\ Len(db) = Len(fs)
            /\ \A j \in 1..Len(fs) : \E i \in Pos(db, fs[j].n) : FitsT(fs[j].t, db[i].t)
            /\ \A i \in 1..Len(db) : FieldOf(fs, db[i].n) # {}
  IN Finish(S, tc, LAMBDA f : At(wvals, One(Pos(db, f.n))))
DeRowOrder(S, db, wvals) ==
  LET fs == Active(S)
      tc == /\ Len(db) = Len(fs)
            /\ \A j \in 1..Len(fs) : (S.snc \/ db[j].n = fs[j].n) /\ FitsT(fs[j].t, db[j].t)
  IN Finish(S, tc, LAMBDA f : At(wvals, IndexIn(fs, f)))

DeExp(s, mode, db, wvals) ==
  LET S == Struct(s, mode, "de") IN
  CASE mode = "udt" /\ S.flavor = "name" -> DeUdtName(S, db, wvals)
    [] mode = "udt" /\ S.flavor = "order" -> DeUdtOrder(S, db, wvals)
    [] mode = "row" /\ S.flavor = "name" -> DeRowName(S, db, wvals)
    [] mode = "row" /\ S.flavor = "order" -> DeRowOrder(S, db, wvals)

(********************************** judging ********************************)
NormV(v) == IF v.k = "i" THEN [k |-> "i", i |-> [neg |-> IF Trim(v.i.mag) = << >> THEN 0 ELSE v.i.neg, mag |-> Trim(v.i.mag)]] ELSE v
Nulls(n) == Concat([i \in 1..n |-> NullLen])
\* the wire form of the deserialization input
WireOf(db, wvals) == Concat([i \in 1..Len(wvals) |-> Cell(db[i].t, wvals[i])])

SerOK(r) ==
  IF "na" \in DOMAIN r.ser \/ "harness" \in DOMAIN r.ser THEN TRUE
  ELSE LET e == SerExp(r.s, r.mode, r.db, r.vals) IN
       /\ r.ser.ok = e.ok
       /\ e.ok = 1 =>
            LET body == Concat(e.cells) IN
            IF r.mode = "row" THEN r.ser.bytes = body /\ r.ser.count = Len(r.db)
            \* trailing UDT fields the struct does not know: not sent, or (equivalent on the wire) sent as nulls
            ELSE \E k \in {0, e.tail} : r.ser.bytes = S1(body \o Nulls(k), LAMBDA b : Int32(Len(b)) \o b)

DeOK(r) ==
  IF "na" \in DOMAIN r.de THEN TRUE
  ELSE LET e == DeExp(r.s, r.mode, r.db, r.wvals)
           fs == Struct(r.s, r.mode, "de").fs IN
       /\ r.wire = WireOf(r.db, r.wvals)                       \* the harness was given what the generator meant
       /\ r.de.tc_ok = e.tc
       /\ e.tc = 1 => /\ r.de.ok = e.ok
                      /\ e.ok = 1 => \A j \in 1..Len(fs) : NormV(r.de.val[fs[j].r]) = NormV(e.val[j])

CaseOK(r) == SerOK(r) /\ DeOK(r)
=============================================================================
