-------------------------- MODULE MC_TabletPayload --------------------------
(* C08: the `tablets-routing-v1` custom payload, tuple<bigint, bigint,        *)
(* list<tuple<uuid, int>>>, is decoded by the driver from bytes a node sends.  *)
(* Generator: well-formed payloads with 0..3 replicas (encoded by the value    *)
(* specification CqlValue), every truncation of them, and every 4-byte window  *)
(* overwritten by the integers a length / count field is most dangerous with.  *)
EXTENDS CqlValueSamples, TLC, Json
PT == Tp(<<NT("bigint"), NT("bigint"), L(Tp(<<NT("uuid"), NT("int")>>))>>)
Uuid(n) == Raw([i \in 1..16 |-> IF i = 16 THEN n ELSE 0])
Rep(n) == [k |-> "tup", vs |-> <<Uuid(n), IV(0, <<n - 1>>)>>]
PV(r) == [k |-> "tup", vs |-> <<IV(1, <<100>>), IV(0, <<0, 1>>), [k |-> "seq", vs |-> [i \in 1..r |-> Rep(i)]]>>]
WF(r) == Body(PT, PV(r))
Special == << <<0, 0, 0, 0>>, <<255, 255, 255, 255>>, <<0, 0, 0, 1>>, <<0, 16, 0, 0>>, <<0, 152, 150, 128>>, <<127, 255, 255, 255>>, <<128, 0, 0, 0>>, <<0, 0, 0, 3>> >>
VARIABLE c
W == [r \in 0..3 |-> WF(r)]          \* (evaluated once)
Init == \E r \in 0..3 : LET w == W[r] IN
          \/ c = [kind |-> "wf", r |-> r, payload |-> w]
          \/ \E n \in 0..(Len(w) - 1) : c = [kind |-> "trunc", r |-> r, payload |-> SubSeq(w, 1, n)]
          \/ \E o \in 0..(Len(w) - 4) : \E s \in 1..Len(Special) :
               c = [kind |-> "mut", r |-> r, payload |-> [i \in 1..Len(w) |-> IF i > o /\ i <= o + 4 THEN Special[s][i - o] ELSE w[i]]]
Next == UNCHANGED c
Spec == Init /\ [][Next]_c
Emit == PrintT(<<"PAYLOAD", ToJson(c)>>)
=============================================================================
