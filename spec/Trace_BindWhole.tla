--------------------------- MODULE Trace_BindWhole ---------------------------
(***************************************************************************)
(* C17 — three relations that hold "for every such pair" and that the      *)
(* carrier x type matrix cannot express because they are about COUNTS:     *)
(*  row   : a whole row of n values bound at once is accepted iff n fits   *)
(*          the 16-bit value count, and then the reported count is the     *)
(*          number of encoded cells (= n);                                 *)
(*  vec   : a sequence bound to vector<e, d> is accepted iff it has        *)
(*          exactly d elements; a refusal leaves count and bytes as before;*)
(*  rowtc : a row of k columns is read into a tuple of arity a iff a = k;  *)
(*  writer: whatever sequence of directly written cells and appended,     *)
(*          already serialised rows one RowWriter sees, the count it       *)
(*          reports is the number of cells it holds.                       *)
(* Records of `vh-cql c17-whole`.                                          *)
(***************************************************************************)
EXTENDS Naturals, Sequences, Json, IOUtils, TLC
Rec == ndJsonDeserialize(IOEnv.TRACE)
VARIABLE l
MaxValues == 65535
\* a writer step is 0 (one cell written directly) or k > 0 (an already serialised row of k - 1 values appended)
Cells(steps) == LET F[i \in 0..Len(steps)] == IF i = 0 THEN 0 ELSE F[i - 1] + (IF steps[i] = 0 THEN 1 ELSE steps[i] - 1) IN F[Len(steps)]
OK(r) ==
  /\ r.panic = 0
  /\ CASE r.kind = "row" -> IF r.n <= MaxValues THEN r.ok = 1 /\ r.count = r.n /\ r.cells = r.n ELSE r.ok = 0
       [] r.kind = "vec" -> /\ r.ok = (IF r.len = r.d THEN 1 ELSE 0)
                            /\ (r.ok = 1 => r.count_after = r.count_before + 1 /\ r.buf_after > r.buf_before)
                            /\ (r.ok = 0 => r.count_after = r.count_before /\ r.buf_after = r.buf_before)      \* no byte of a mismatched value stays
       [] r.kind = "rowtc" -> r.ok = (IF r.arity = r.cols THEN 1 ELSE 0)
       [] r.kind = "writer" -> r.bytes_ok = 1 /\ r.count = Cells(r.steps) /\ r.cells = Cells(r.steps)
       [] OTHER -> FALSE
TraceInit == l = 1 /\ TLCSet(1, 1)
TraceNext == l <= Len(Rec) /\ (IF OK(Rec[l]) THEN TRUE ELSE PrintT(<<"BAD", l>>)) /\ l' = l + 1
TraceSpec == TraceInit /\ [][TraceNext]_l
Progress == TLCSet(1, IF l > TLCGet(1) THEN l ELSE TLCGet(1))
TraceAccepted == IF TLCGet(1) = Len(Rec) + 1 THEN TRUE ELSE PrintT(<<"REJECTED at line", TLCGet(1)>>) /\ FALSE
=============================================================================
