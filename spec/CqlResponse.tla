----------------------------- MODULE CqlResponse -----------------------------
(***************************************************************************)
(* C08 — the server side of CQL v4 seen from the client: an independent    *)
(* ENCODER of every response kind (ERROR with its code-specific fields,    *)
(* READY, AUTHENTICATE, SUPPORTED, RESULT void / rows / set_keyspace /     *)
(* prepared / schema_change, EVENT, AUTH_CHALLENGE, AUTH_SUCCESS), of the  *)
(* body extensions (tracing id, warnings, custom payload) and the frame    *)
(* header, written from the protocol specification.  A response is encoded *)
(* as a sequence of SEGMENTS [tag, n, b]: the tag says what the bytes mean *)
(* (a length, a count, flags, a type id, raw bytes), so that field-aware   *)
(* mutation (Mutants) is an operation of the specification.                *)
(* Decoding a well-formed frame must give back the description (Expected). *)
(* Strings are byte sequences.  Values in rows are encoded by CqlValue.    *)
(***************************************************************************)
EXTENDS CqlValue, Integers

Seg(tag, n, b) == <<[tag |-> tag, n |-> n, b |-> b]>>
Short(n) == <<n \div 256, n % 256>>
SInt(tag, n) == Seg(tag, n, Int32(n))
SShort(tag, n) == Seg(tag, n, Short(n))
SRaw(b) == IF b = << >> THEN << >> ELSE Seg("raw", 0, b)
SByte(tag, n) == Seg(tag, n, <<n>>)
SString(b) == SShort("len16", Len(b)) \o SRaw(b)                     \* [string] and [short bytes]
None == [some |-> 0]
Some(v) == [some |-> 1, v |-> v]
\* [bytes]: an optional byte string (absent = length -1)
SBytes(o) == IF o.some = 0 THEN Seg("len32", -1, <<255, 255, 255, 255>>) ELSE SInt("len32", Len(o.v)) \o SRaw(o.v)
SStringList(l) == SShort("count16", Len(l)) \o Concat([i \in 1..Len(l) |-> SString(l[i])])
SInet(ip, port) == SByte("inetlen", Len(ip)) \o SRaw(ip) \o SInt("int", port)
\* two's complement of a possibly negative 32-bit value
SIntS(tag, n) == Seg(tag, n, IF n >= 0 THEN Int32(n) ELSE [Int32(n + 2147483647 + 1) EXCEPT ![1] = @ + 128])     \* (TLC integers are 32-bit)
Bytes(segs) == Concat([i \in 1..Len(segs) |-> segs[i].b])

(********************************* types ***********************************)
NativeId(n) ==
  CASE n = "ascii" -> 1 [] n = "bigint" -> 2 [] n = "blob" -> 3 [] n = "boolean" -> 4 [] n = "counter" -> 5 [] n = "decimal" -> 6
    [] n = "double" -> 7 [] n = "float" -> 8 [] n = "int" -> 9 [] n = "timestamp" -> 11 [] n = "uuid" -> 12 [] n = "text" -> 13
    [] n = "varint" -> 14 [] n = "timeuuid" -> 15 [] n = "inet" -> 16 [] n = "date" -> 17 [] n = "time" -> 18 [] n = "smallint" -> 19
    [] n = "tinyint" -> 20 [] n = "duration" -> 21
RECURSIVE SType(_)
SType(T) ==
  CASE T.k = "native" -> SShort("typeid", NativeId(T.n))
    [] T.k = "list" -> SShort("typeid", 32) \o SType(T.e)
    [] T.k = "set" -> SShort("typeid", 34) \o SType(T.e)
    [] T.k = "map" -> SShort("typeid", 33) \o SType(T.a) \o SType(T.b)
    [] T.k = "tuple" -> SShort("typeid", 49) \o SShort("count16", Len(T.ts)) \o Concat([i \in 1..Len(T.ts) |-> SType(T.ts[i])])
    [] T.k = "udt" -> SShort("typeid", 48) \o SString(T.ks) \o SString(T.name) \o SShort("count16", Len(T.fs))
                      \o Concat([i \in 1..Len(T.fs) |-> SString(T.fs[i].n) \o SType(T.fs[i].t)])
    [] T.k = "vector" -> SShort("typeid", 0) \o SString(T.class)       \* a custom type: the marshal class string

(******************************* result metadata ***************************)
\* m = [global, cols (seq of [ks, table, name, t]), paging (None | Some(bytes)), new_id (None | Some(bytes)), no_metadata, col_count]
MetaFlags(m) == (IF m.global THEN 1 ELSE 0) + (IF m.paging.some = 1 THEN 2 ELSE 0) + (IF m.no_metadata THEN 4 ELSE 0)
                + (IF m.new_id.some = 1 THEN 8 ELSE 0)
SColSpecs(m) ==
  (IF m.global THEN SString(m.cols[1].ks) \o SString(m.cols[1].table) ELSE << >>)
  \o Concat([i \in 1..Len(m.cols) |-> (IF m.global THEN << >> ELSE SString(m.cols[i].ks) \o SString(m.cols[i].table))
                                       \o SString(m.cols[i].name) \o SType(m.cols[i].t)])
SResultMeta(m) ==
  SInt("flags32", MetaFlags(m)) \o SInt("count32", m.col_count)
  \o (IF m.paging.some = 1 THEN SBytes(m.paging) ELSE << >>)
  \o (IF m.new_id.some = 1 THEN SString(m.new_id.v) ELSE << >>)
  \o (IF m.no_metadata THEN << >> ELSE SColSpecs(m))
\* p = [global, cols, pk (seq of indexes), lwt (flag bits to add)]
SPreparedMeta(p) ==
  SInt("flags32", (IF p.global THEN 1 ELSE 0) + p.lwt) \o SInt("count32", Len(p.cols)) \o SInt("count32", Len(p.pk))
  \o Concat([i \in 1..Len(p.pk) |-> SShort("short", p.pk[i])])
  \o (IF Len(p.cols) = 0 THEN << >> ELSE SColSpecs(p))

(********************************* bodies **********************************)
SSchemaChange(e) ==
  SString(e.change) \o SString(e.target) \o SString(e.ks)
  \o (IF e.name.some = 1 THEN SString(e.name.v) ELSE << >>)
  \o (IF e.args.some = 1 THEN SStringList(e.args.v) ELSE << >>)

SErrorX(code, x) ==
  CASE code = 4096 -> SShort("cl", x.cl) \o SInt("int", x.required) \o SInt("int", x.alive)
    [] code = 4352 -> SShort("cl", x.cl) \o SInt("int", x.received) \o SInt("int", x.required) \o SString(x.write_type)
    [] code = 4608 -> SShort("cl", x.cl) \o SInt("int", x.received) \o SInt("int", x.required) \o SByte("byte", x.data_present)
    [] code = 4864 -> SShort("cl", x.cl) \o SInt("int", x.received) \o SInt("int", x.required) \o SInt("int", x.numfailures) \o SByte("byte", x.data_present)
    [] code = 5120 -> SString(x.keyspace) \o SString(x.function) \o SStringList(x.arg_types)
    [] code = 5376 -> SShort("cl", x.cl) \o SInt("int", x.received) \o SInt("int", x.required) \o SInt("int", x.numfailures) \o SString(x.write_type)
    [] code = 9216 -> SString(x.keyspace) \o SString(x.table)
    [] code = 9472 -> SString(x.id)
    [] "op_type" \in DOMAIN x -> SByte("byte", x.op_type) \o SByte("byte", x.rejected)
    [] OTHER -> << >>

SRows(r) == \* rows: seq of seq of values; the column types come from the metadata (or, with no_metadata, from `types`)
  SInt("count32", Len(r.rows))
  \o Concat([i \in 1..Len(r.rows) |-> Concat([j \in 1..Len(r.rows[i]) |->
        LET cell == Cell(r.types[j], r.rows[i][j]) IN
        Seg("len32", 0, SubSeq(cell, 1, 4)) \o SRaw(SubSeq(cell, 5, Len(cell)))])])

\* body segments of a response description d (d.k as in harness/vh-cql/C08.md)
SBody(d) ==
  CASE d.k = "error" -> SIntS("int", d.code) \o SString(d.reason) \o SErrorX(d.code, d.x)
    [] d.k = "ready" -> << >>
    [] d.k = "authenticate" -> SString(d.name)
    [] d.k \in {"auth_challenge", "auth_success"} -> SBytes(d.token)
    [] d.k = "supported" -> SShort("count16", Len(d.opts)) \o Concat([i \in 1..Len(d.opts) |-> SString(d.opts[i][1]) \o SStringList(d.opts[i][2])])
    [] d.k = "void" -> SInt("kind32", 1)
    [] d.k = "rows" -> SInt("kind32", 2) \o SResultMeta(d.meta) \o SRows(d)
    [] d.k = "set_keyspace" -> SInt("kind32", 3) \o SString(d.ks)
    [] d.k = "prepared" -> SInt("kind32", 4) \o SString(d.id) \o (IF d.result_metadata_id.some = 1 THEN SString(d.result_metadata_id.v) ELSE << >>)
                           \o SPreparedMeta(d.bind) \o SResultMeta(d.result)
    [] d.k = "schema_change" -> SInt("kind32", 5) \o SSchemaChange(d.ev)
    [] d.k = "event" ->
         CASE d.ev.k = "topology" -> SString(d.ev.tag) \o SString(d.ev.change) \o SInet(d.ev.ip, d.ev.port)
           [] d.ev.k = "status" -> SString(d.ev.tag) \o SString(d.ev.change) \o SInet(d.ev.ip, d.ev.port)
           [] d.ev.k = "schema" -> SString(d.ev.tag) \o SSchemaChange(d.ev)
Opcode(d) ==
  CASE d.k = "error" -> 0 [] d.k = "ready" -> 2 [] d.k = "authenticate" -> 3 [] d.k = "supported" -> 6
    [] d.k \in {"void", "rows", "set_keyspace", "prepared", "schema_change"} -> 8
    [] d.k = "event" -> 12 [] d.k = "auth_challenge" -> 14 [] d.k = "auth_success" -> 16

(****************************** frame + extensions *************************)
\* x = [tracing (<< >> | 16 bytes), warnings (seq of strings), payload (None | Some(seq of <<key, None | Some(bytes)>>)), stream]
FlagsOf(x) == (IF x.tracing # << >> THEN 2 ELSE 0) + (IF x.payload.some = 1 THEN 4 ELSE 0) + (IF Len(x.warnings) > 0 THEN 8 ELSE 0)
SExt(x) ==
  SRaw(x.tracing)
  \o (IF Len(x.warnings) > 0 THEN SStringList(x.warnings) ELSE << >>)
  \o (IF x.payload.some = 1 THEN SShort("count16", Len(x.payload.v)) \o Concat([i \in 1..Len(x.payload.v) |-> SString(x.payload.v[i][1]) \o SBytes(x.payload.v[i][2])])
      ELSE << >>)
SHeader(flags, stream, opcode, len) ==
  SByte("version", 132) \o SByte("flags8", flags) \o Seg("stream", stream, Short(IF stream >= 0 THEN stream ELSE 65536 + stream))
  \o SByte("opcode", opcode) \o SInt("framelen", len)
\* all segments of the frame; the header length is the length of what follows
SFrame(d, x) == LET rest == SExt(x) \o SBody(d) IN SHeader(FlagsOf(x), x.stream, Opcode(d), Len(Bytes(rest))) \o rest
\* re-frame a (mutated) payload whose size changed
Reframe(segs) == LET rest == SubSeq(segs, 6, Len(segs)) IN
                 SubSeq(segs, 1, 4) \o SInt("framelen", Len(Bytes(rest))) \o rest

(********************************* mutation ********************************)
Flip(n, k) == IF (n \div (2 ^ k)) % 2 = 1 THEN n - 2 ^ k ELSE n + 2 ^ k
Max32 == <<127, 255, 255, 255>>
Min1 == <<255, 255, 255, 255>>
\* replacement byte strings of the same width for one segment, by what the field means
Repl(s) ==
  CASE s.tag \in {"len32", "count32"} ->
         {Int32(0), Min1, Max32, <<128, 0, 0, 0>>, <<0, 1, 0, 0>>} \cup (IF s.n >= 0 THEN {Int32(s.n + 1)} ELSE {})
         \cup (IF s.n > 0 THEN {Int32(s.n - 1)} ELSE {})
    [] s.tag \in {"len16", "count16"} -> {Short(0), <<255, 255>>, <<127, 255>>, Short(s.n + 1)} \cup (IF s.n > 0 THEN {Short(s.n - 1)} ELSE {})
    [] s.tag = "flags32" -> {Int32(Flip(s.n, k)) : k \in 0..4}
    [] s.tag = "flags8" -> {<<Flip(s.n, k)>> : k \in 0..4}
    [] s.tag = "typeid" -> {Short(t) : t \in {0, 9, 13, 21, 32, 33, 34, 48, 49, 10, 255, 65535}}
    [] s.tag = "kind32" -> {Int32(t) : t \in 0..6} \cup {Min1}
    [] s.tag = "opcode" -> {<<o>> : o \in {0, 1, 2, 3, 6, 8, 12, 14, 16, 255}}
    [] s.tag = "version" -> {<<4>>, <<131>>, <<133>>, <<5>>}
    [] s.tag = "framelen" -> {Int32(0), Max32, Min1, Int32(s.n + 1), <<0, 255, 255, 255>>} \cup (IF s.n > 0 THEN {Int32(s.n - 1)} ELSE {})
    [] s.tag = "inetlen" -> {<<0>>, <<4>>, <<16>>, <<5>>, <<255>>}
    [] s.tag = "cl" -> {<<0, 11>>, <<255, 255>>}
    [] s.tag = "byte" -> {<<2>>, <<255>>}
    [] OTHER -> {}
\* all single-field mutants of a frame (same size; the header is left as it was)
MutantsAt(segs, i) == {[segs EXCEPT ![i].b = nb] : nb \in Repl(segs[i]) \ {segs[i].b}}
\* nesting deepened: the type at segment i is wrapped n times in a composite type whose encoding up to the element type is
\* `pat` (list / set: the 2-byte id; tuple of one: id + count 1; map<int, .>: id + int id; UDT of one field) — frame length recomputed
DeepPats == {<<0, 32>>, <<0, 34>>, <<0, 49, 0, 1>>, <<0, 33, 0, 9>>, <<0, 48, 0, 1, 107, 0, 1, 117, 0, 1, 0, 1, 102>>,
             \* "fat" nesting: a tuple / UDT that announces 65535 members at every level (and delivers the nested one)
             <<0, 49, 255, 255>>, <<0, 48, 0, 1, 107, 0, 1, 117, 255, 255, 0, 1, 102>>}
Deepen(segs, i, n, pat) == Reframe(SubSeq(segs, 1, i - 1) \o Seg("raw", 0, [j \in 1..(Len(pat) * n) |-> pat[((j - 1) % Len(pat)) + 1]]) \o SubSeq(segs, i, Len(segs)))
=============================================================================
