------------------------------ MODULE ExecProp ------------------------------
(***************************************************************************)
(* Property-level judge of ONE request driven through the real execution   *)
(* loop (run_request_no_side_effects) with synthetic attempts under a      *)
(* paused clock (C06 loop half, C13 end-to-end half).                      *)
(*                                                                         *)
(* Record r:  pol, idem, cl, maxspec (-1 = no speculative policy), plan,   *)
(*   evs = sequence of                                                     *)
(*    [k |-> "AS", t, tgt, cl]         attempt started on plan target tgt  *)
(*    [k |-> "AE", t, tgt, e]          it ended; e = error symbol or Ok    *)
(*    [k |-> "D",  d, same]            the policy's decision as observed by *)
(*                                     a recording wrapper around it       *)
(*    [k |-> "R",  t, res, tgt]        return: "ok" | "ignored" | "err" |  *)
(*                                     "empty" (EmptyPlan) | "pool"        *)
(*    [k |-> "H"]                      the call never returned             *)
(***************************************************************************)
EXTENDS RetryProp, Integers, FiniteSets

Ix(evs, kind) == {n \in 1..Len(evs) : evs[n].k = kind}
OkSym(e) == e.k = "Ok"

\* attempts in flight just before event n
InFlight(evs, n) == {m \in Ix(evs, "AS") : m < n /\ ~\E q \in Ix(evs, "AE") : m < q /\ q < n /\ evs[q].tgt = evs[m].tgt}

ExecOK(r) ==
  LET evs == r.evs
      AS == Ix(evs, "AS")  AE == Ix(evs, "AE")  R == Ix(evs, "R")  last == Len(evs)
      speculating == r.maxspec >= 0 /\ r.idem
      maxpar == IF speculating THEN 1 + r.maxspec ELSE 1
  IN
  /\ Ix(evs, "H") = {}                               \* it always returns
  /\ R = {last}
  \* bounded parallelism; a request not marked idempotent is never in flight twice
  /\ \A n \in AS : Cardinality(InFlight(evs, n)) + 1 <= maxpar
  \* concurrent attempts use distinct plan targets
  /\ \A n \in AS : \A m \in InFlight(evs, n) : evs[m].tgt # evs[n].tgt
  \* targets are taken in plan order, never beyond the plan
  /\ \A n \in AS : evs[n].tgt >= 1 /\ evs[n].tgt <= r.plan
  \* a request not marked idempotent is re-sent only after a failure proving non-application;
  \* Default never retries at serial consistency
  /\ (~speculating) =>
        \A n \in AS : LET prev == {m \in AE : m < n} IN
           prev # {} =>
             LET p == CHOOSE m \in prev : \A q \in prev : q <= m IN
             /\ ~OkSym(evs[p].e)
             /\ (r.idem \/ Safe(evs[p].e))
             /\ ~(r.pol = "Default" /\ Serial(evs[CHOOSE a \in AS : a < p /\ evs[a].tgt = evs[p].tgt /\ \A b \in AS : (b < p /\ evs[b].tgt = evs[p].tgt) => b <= a].cl))
  \* attempts bounded by plan length + the policy's same-node budget (per fiber)
  /\ Cardinality(AS) <= (r.plan + Budget(r.pol)) * maxpar
  /\ (~speculating) => Cardinality(AS) <= r.plan + Budget(r.pol)
  \* the driver sends exactly the attempts the policy decided: after "stop"/"ignore" of the only fiber nothing more
  /\ (~speculating) =>
        \A n \in Ix(evs, "D") : evs[n].d \in {"stop", "ignore"} => ~\E m \in AS : m > n
  \* the return value
  /\ LET ret == evs[last] IN
     CASE ret.res = "ok" -> \E n \in AE : OkSym(evs[n].e) /\ evs[n].tgt = ret.tgt /\ evs[n].t = ret.t
       [] ret.res = "ignored" -> \E n \in Ix(evs, "D") : evs[n].d = "ignore"
       [] ret.res = "empty" -> AS = {}                          \* EmptyPlan only if nothing could be tried
       [] ret.res = "pool" -> TRUE
       [] ret.res = "err" -> /\ \E n \in AE : ~OkSym(evs[n].e)
                             \* an error is reported only when nothing is in flight any more,
                             \* or it is definitive (not checked here: kinds are synthetic)
       [] OTHER -> FALSE
  \* when the call returns a non-final outcome every started attempt has ended
  /\ LET ret == evs[last] IN
     (ret.res \in {"empty", "pool"}) => InFlight(evs, last) = {}
=============================================================================
