------------------------------ MODULE Trace_Plan ------------------------------
EXTENDS Plan, Json, IOUtils, TLC
Rec == ndJsonDeserialize(IOEnv.TRACE)
VARIABLE l
TraceInit == l = 1 /\ TLCSet(1, 1)
Good(r) == "panic" \notin DOMAIN r /\ PlanOK(r)
TraceNext == l <= Len(Rec) /\ Good(Rec[l]) /\ l' = l + 1
TraceSpec == TraceInit /\ [][TraceNext]_l
Progress == TLCSet(1, IF l > TLCGet(1) THEN l ELSE TLCGet(1))
TraceAccepted == IF TLCGet(1) = Len(Rec) + 1 THEN TRUE
                 ELSE PrintT(<<"REJECTED at line", TLCGet(1)>>) /\ FALSE
=============================================================================
