---------------------------- MODULE KeyspaceProp ----------------------------
(* C20 — pure definitions: which candidate names are keyspace identifiers, the *)
(* exact USE statement a valid one may produce, and which keyspaces a request  *)
(* frame may legitimately find acknowledged on its connection.                 *)
EXTENDS Naturals, Sequences, FiniteSets
\* names are sequences of character codes (TLC cannot take strings apart)
IsIdentChar(c) == c \in 48..57 \/ c \in 65..90 \/ c \in 97..122 \/ c = 95
ValidName(cs) == Len(cs) \in 1..48 /\ \A i \in 1..Len(cs) : IsIdentChar(cs[i])
UseText(cs, quoted) == <<85, 83, 69, 32>> \o (IF quoted THEN <<34>> \o cs \o <<34>> ELSE cs)       \* USE "name" | USE name
\* uses: sequence of [ks, ok]; a request issued after use number `after` had returned Ok (0: none), while the uses in
\* `conc` were in flight, and after the failed calls in `failed` (which may have switched some connections already)
KsOf(uses, j) == IF j = 0 THEN "none" ELSE uses[j].ks
Allowed(uses, after, conc, failed) == {KsOf(uses, after)} \cup {uses[j].ks : j \in conc \cup failed}
=============================================================================
