SPECIFICATION Spec
CONSTANTS
  Ns = {1, 2, 3, 7, 8, 64, 255, 256, 257, 4096, 65535}
  Msbs = {0, 1, 7, 8, 12, 31, 32, 63}
  TopBytes = {0, 1, 127, 128, 129, 255}
  Los = {1024, 1025, 49152, 65530, 65535}
  Widths = {0, 1, 2, 6, 7, 8, 300}
INVARIANTS ShardBelow Partition Emit
CHECK_DEADLOCK FALSE
