SPECIFICATION Spec
CONSTANTS
  Req = {1, 2, 3}
  Streams = {0, 1}
  AllowFault = FALSE
INVARIANTS NoCrossDelivery StreamUniqueOnWire Bookkeeping NoSpuriousBreak
PROPERTIES AnsweredCompletes
CHECK_DEADLOCK FALSE
