----------------------------- MODULE Trace_ByName -----------------------------
EXTENDS ByName, Json, IOUtils, TLC
Rec == ndJsonDeserialize(IOEnv.TRACE)
VARIABLE l
TraceInit == l = 1 /\ TLCSet(1, 1)
TraceNext == l <= Len(Rec) /\ CaseOK(Rec[l]) /\ l' = l + 1
TraceSpec == TraceInit /\ [][TraceNext]_l
Progress == TLCSet(1, IF l > TLCGet(1) THEN l ELSE TLCGet(1))
TraceAccepted == IF TLCGet(1) = Len(Rec) + 1 THEN TRUE
                 ELSE PrintT(<<"REJECTED at line", TLCGet(1)>>) /\ FALSE
=============================================================================
