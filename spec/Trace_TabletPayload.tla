------------------------- MODULE Trace_TabletPayload -------------------------
(***************************************************************************)
(* C08 for the tablets custom payload: decoding terminates with a value or *)
(* an error, without panic, using memory in proportion to the input (the   *)
(* bound of Trace_CqlResponse: 16 MiB + 64 x input bytes); a well-formed   *)
(* payload is accepted.  (What it decodes TO is C15's business; a          *)
(* truncation may still be a shorter tuple and be accepted.)               *)
(***************************************************************************)
EXTENDS Naturals, Sequences, Json, IOUtils, TLC
Rec == ndJsonDeserialize(IOEnv.TRACE)
VARIABLE l
MemBound(len) == 16777216 + 64 * len
OK(r) == /\ r.panic = 0
         /\ r.peak <= MemBound(r.len)
         /\ (r.kind = "wf" => r.ok = 1)
TraceInit == l = 1 /\ TLCSet(1, 1)
TraceNext == l <= Len(Rec) /\ (IF OK(Rec[l]) THEN TRUE ELSE PrintT(<<"BAD", l>>)) /\ l' = l + 1
TraceSpec == TraceInit /\ [][TraceNext]_l
Progress == TLCSet(1, IF l > TLCGet(1) THEN l ELSE TLCGet(1))
TraceAccepted == IF TLCGet(1) = Len(Rec) + 1 THEN TRUE ELSE PrintT(<<"REJECTED at line", TLCGet(1)>>) /\ FALSE
=============================================================================
