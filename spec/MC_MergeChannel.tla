--------------------------- MODULE MC_MergeChannel ---------------------------
EXTENDS MergeChannel, Json
\* hide the schedule history when only the properties are checked
View == <<slot, sDropped, rDropped, nstate, fut, futNotif, waker, woken, ppc, pkind, pres,
          cpc, cval, nextId, merged, received, gotNone, nPush, nClear, nNoop, nRecv, nCancel, nTry>>
\* one REPLAY line per maximal behaviour (generation configs keep `sched` in the state)
Emit == Done => PrintT(<<"REPLAY", ToJson(sched)>>)
\* a parked consumer with a pending value is eventually served (or stops waiting)
Live == (cpc = "parked" /\ (slot # << >> \/ sDropped)) ~> (cpc # "parked")
=============================================================================
