------------------------------ MODULE RetryProp ------------------------------
(***************************************************************************)
(* C06 — pure operators: error symbols, the property-level predicates and  *)
(* the decision tables of the three built-in retry policies.               *)
(*                                                                         *)
(* Error symbol: [k, n, req, dp, wt]                                       *)
(*   k   kind of per-attempt failure                                       *)
(*   n   `alive` (Unavailable) / `received` (Read/WriteTimeout), else 0    *)
(*   req `required` (ReadTimeout), else 0                                  *)
(*   dp  data_present (ReadTimeout), else FALSE                            *)
(*   wt  write type (WriteTimeout), else "-"                               *)
(***************************************************************************)
EXTENDS Naturals, Sequences

SimpleKinds == {"Broken", "AllocFail", "Parse", "Syntax", "Invalid", "AlreadyExists", "FunctionFailure", "Auth",
                "Unauthorized", "Config", "Overloaded", "Bootstrapping", "Truncate", "ReadFailure", "WriteFailure",
                "Unprepared", "Server", "Protocol", "RateLimit", "Other"}
WriteTypes == {"Simple", "Batch", "UnloggedBatch", "Counter", "BatchLog", "Cas", "View", "Cdc", "Other"}
Consistencies == {"Any", "One", "Two", "Three", "Quorum", "All", "LocalQuorum", "EachQuorum", "LocalOne",
                  "Serial", "LocalSerial"}
Policies == {"Default", "Downgrading", "Fallthrough"}

Sym(k, n, req, dp, wt) == [k |-> k, n |-> n, req |-> req, dp |-> dp, wt |-> wt]
Symbols ==
  {Sym(k, 0, 0, FALSE, "-") : k \in SimpleKinds}
  \cup {Sym("Unavailable", a, 0, FALSE, "-") : a \in 0..3}
  \cup {Sym("ReadTimeout", r, 2, dp, "-") : r \in 0..3, dp \in BOOLEAN}
  \cup {Sym("WriteTimeout", r, 0, FALSE, w) : r \in 0..2, w \in WriteTypes}

Serial(cl) == cl \in {"Serial", "LocalSerial"}

(* Failures that prove the attempt was NOT applied: only after these may a     *)
(* request that is not marked idempotent be sent again.                        *)
Safe(e) == e.k \in {"Unavailable", "Bootstrapping", "AllocFail", "ReadTimeout"}

(* the policy's fixed number of same-node retries *)
Budget(pol) == CASE pol = "Default" -> 2 [] pol = "Downgrading" -> 1 [] OTHER -> 0

(* Property-level predicate on ONE decision that leads to another attempt:     *)
(*  pol, idem, cl: policy, idempotence flag, consistency of the failed attempt *)
(*  e: its failure; d: "same" | "next" | "stop" | "ignore";                    *)
(*  sameBefore: same-node retries already made for this request               *)
DecisionOK(pol, idem, cl, e, d, sameBefore) ==
  (d \in {"same", "next"}) =>
     /\ (idem \/ Safe(e))
     /\ ~(pol = "Default" /\ Serial(cl))
     /\ (d = "same" => sameBefore + 1 <= Budget(pol))
     /\ pol # "Fallthrough"

(***************************** decision tables *****************************)
Fresh == [unav |-> FALSE, rt |-> FALSE, wt |-> FALSE, r |-> FALSE]
Out(d, cl, fl) == [d |-> d, cl |-> cl, fl |-> fl]     \* cl = "keep": consistency unchanged

DefaultDecide(fl, idem, cl, e) ==
  IF Serial(cl) THEN Out("stop", "keep", fl)
  ELSE CASE e.k \in {"Broken", "Overloaded", "Server", "Truncate"} ->
              IF idem THEN Out("next", "keep", fl) ELSE Out("stop", "keep", fl)
         [] e.k = "Unavailable" ->
              IF ~fl.unav THEN Out("next", "keep", [fl EXCEPT !.unav = TRUE]) ELSE Out("stop", "keep", fl)
         [] e.k = "ReadTimeout" ->
              IF ~fl.rt /\ e.n >= e.req /\ ~e.dp THEN Out("same", "keep", [fl EXCEPT !.rt = TRUE])
              ELSE Out("stop", "keep", fl)
         [] e.k = "WriteTimeout" ->
              IF ~fl.wt /\ idem /\ e.wt = "BatchLog" THEN Out("same", "keep", [fl EXCEPT !.wt = TRUE])
              ELSE Out("stop", "keep", fl)
         [] e.k \in {"Bootstrapping", "AllocFail"} -> Out("next", "keep", fl)
         [] OTHER -> Out("stop", "keep", fl)

MaxCl(n, prev, fl) ==
  IF n >= 3 THEN Out("same", "Three", fl)
  ELSE IF n = 2 THEN Out("same", "Two", fl)
  ELSE IF n = 1 \/ prev = "EachQuorum" THEN Out("same", "One", fl)
  ELSE Out("stop", "keep", fl)

DowngradingDecide(fl, idem, cl, e) ==
  IF Serial(cl) THEN (IF e.k = "Unavailable" THEN Out("next", "keep", fl) ELSE Out("stop", "keep", fl))
  ELSE LET used == [fl EXCEPT !.r = TRUE] IN
       CASE e.k \in {"Broken", "Overloaded", "Server", "Truncate"} ->
              IF idem THEN Out("next", "keep", fl) ELSE Out("stop", "keep", fl)
         [] e.k = "Unavailable" -> IF ~fl.r THEN MaxCl(e.n, cl, used) ELSE Out("stop", "keep", fl)
         [] e.k = "ReadTimeout" ->
              IF fl.r THEN Out("stop", "keep", fl)
              ELSE IF e.n < e.req THEN MaxCl(e.n, cl, used)
              ELSE IF ~e.dp THEN Out("same", "keep", used)
              ELSE Out("stop", "keep", fl)
         [] e.k = "WriteTimeout" ->
              IF fl.r \/ ~idem THEN Out("stop", "keep", fl)
              ELSE IF e.wt \in {"Batch", "Simple"} /\ e.n > 0 THEN Out("ignore", "keep", used)
              ELSE IF e.wt = "UnloggedBatch" THEN MaxCl(e.n, cl, used)
              ELSE IF e.wt = "BatchLog" THEN Out("same", "keep", used)
              ELSE Out("stop", "keep", used)
         [] e.k \in {"Bootstrapping", "AllocFail"} -> Out("next", "keep", fl)
         [] OTHER -> Out("stop", "keep", fl)

Decide(pol, fl, idem, cl, e) ==
  CASE pol = "Default" -> DefaultDecide(fl, idem, cl, e)
    [] pol = "Downgrading" -> DowngradingDecide(fl, idem, cl, e)
    [] OTHER -> Out("stop", "keep", fl)
=============================================================================
