-------------------------- MODULE MC_CqlRequestE2E --------------------------
(* Scenarios for the session-level half of C09: every way of issuing a request (unpaged / paged, unprepared / prepared / *)
(* batch) x consistency x serial consistency x page size x explicit timestamp x tracing x bound values incl. null /   *)
(* not-set / zero-length.                                                                                               *)
EXTENDS Naturals, Sequences, TLC, Json
Val(b) == [k |-> "val", b |-> b]
NullC == [k |-> "null"]
UnsetC == [k |-> "unset"]
ValueLists == << <<Val(<<0, 0, 0, 1>>)>>, <<Val(<<97>>), NullC, UnsetC, Val(<< >>)>>, <<Val(<<255, 0>>), Val(<<1>>)>> >>
Kinds == <<"query", "query_iter", "execute", "execute_iter", "batch">>
VARIABLE c
Bit(m, i) == (m \div i) % 2
Init == \E k \in 1..5 : \E mask \in 0..15 : \E cl \in {1, 4, 6, 10} : \E vl \in 1..3 : \E sv \in {8, 9} :
          /\ (k \in {1, 2} => vl = 1)                                   \* unprepared statements are issued without values
          /\ (cl + mask + vl + k) % 2 = 0 \/ mask \in {0, 15}            \* a covering half of the product
          /\ c = [kind |-> Kinds[k], cl |-> cl, serial |-> <<Bit(mask, 1), sv>>, page |-> <<Bit(mask, 2), 7>>, ts |-> <<Bit(mask, 4), 1234567>>,
                  tracing |-> Bit(mask, 8), idem |-> mask % 2, values |-> IF k \in {1, 2} THEN << >> ELSE ValueLists[vl], btype |-> mask % 3]
Next == UNCHANGED c
Spec == Init /\ [][Next]_c
Emit == PrintT(<<"SCEN", ToJson(c)>>)
=============================================================================
