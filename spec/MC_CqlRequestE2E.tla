-------------------------- MODULE MC_CqlRequestE2E --------------------------
(* Scenarios for the session-level half of C09: every way of issuing a request (unpaged / paged, unprepared / prepared / *)
(* batch) x consistency x serial consistency x page size x explicit timestamp x tracing x bound values incl. null /   *)
(* not-set / zero-length; a caller-supplied paging state; a node that has forgotten the statement (the EXECUTE is sent  *)
(* twice); a session that asked for compression the node does not offer.                                                *)
EXTENDS Naturals, Sequences, TLC, Json
Val(b) == [k |-> "val", b |-> b]
NullC == [k |-> "null"]
UnsetC == [k |-> "unset"]
ValueLists == << <<Val(<<0, 0, 0, 1>>)>>, <<Val(<<97>>), NullC, UnsetC, Val(<< >>)>>, <<Val(<<255, 0>>), Val(<<1>>)>> >>
Kinds == <<"query", "query_iter", "execute", "execute_iter", "batch", "query_page", "execute_page">>
VARIABLE c
Bit(m, i) == (m \div i) % 2
\* lv: where the caller says consistency and serial consistency - 0 on the statement, 1 on the statement's execution profile,
\* 2 on the session's default profile (the lower-priority places say something else);
\* bu: the middle statement of the batch is given as text although it has values (the driver prepares it on the fly);
\* ev: the node has forgotten the prepared statement (first EXECUTE answered UNPREPARED, the driver re-prepares and repeats it);
\* cp: the session asked for compression, the node offers none; pg: the caller continues from a paging state
Init == \E k \in 1..7 : \E mask \in 0..15 : \E cl \in {1, 4, 6, 10} : \E vl \in 1..3 : \E sv \in {8, 9} : \E ev \in {0, 1} : \E cp \in {0, 1} : \E pg \in {0, 1} : \E lv \in {0, 1, 2} : \E bu \in {0, 1} :
          /\ (k \in {1, 2, 6} => vl = 1)                                \* unprepared statements are issued without values
          /\ (ev = 1 => k \in {3, 4, 7})
          /\ (pg = 1 => k \in {6, 7})
          /\ (bu = 1 => k = 5)
          /\ (cl + mask + vl + k + ev + cp + pg) % 2 = 0 \/ mask \in {0, 15}            \* a covering half of the product
          /\ (lv = 0 \/ (cl + mask + vl + k + ev + cp + pg + lv) % 3 = 0)                \* ... and a third of it for the other two levels
          /\ c = [kind |-> Kinds[k], cl |-> cl, serial |-> <<Bit(mask, 1), sv>>, page |-> <<Bit(mask, 2), 7>>, ts |-> <<Bit(mask, 4), 1234567>>,
                  tracing |-> Bit(mask, 8), idem |-> mask % 2, values |-> IF k \in {1, 2, 6} THEN << >> ELSE ValueLists[vl], btype |-> mask % 3,
                  evict |-> ev, comp |-> cp, lvl |-> lv, bunprep |-> bu, ps |-> <<pg, IF pg = 1 THEN <<1, 2, 255>> ELSE << >> >>]
Next == UNCHANGED c
Spec == Init /\ [][Next]_c
Emit == PrintT(<<"SCEN", ToJson(c)>>)
=============================================================================
