----------------------------- MODULE MC_RetryE2E -----------------------------
(* Scenarios for `vh-driver e2e run`: statement kind x idempotence x retry policy (given to the *)
(* profile or to the statement) x consistency x reply scripts, and speculative scenarios.       *)
EXTENDS Naturals, Sequences, TLC, Json
CONSTANTS Full
Faults == <<"overloaded", "bootstrapping", "truncate", "server_error", "invalid", "syntax", "unauthorized", "unavailable", "read_timeout",
            "read_timeout_incomplete", "write_timeout_batchlog", "write_timeout_simple", "read_failure", "write_failure", "drop">>
R(f) == [r |-> f, delay_ms |-> 0]
D(f, ms) == [r |-> f, delay_ms |-> ms]
Scripts == {<<R("ok")>>} \cup {<<R(Faults[i]), R("ok")>> : i \in 1..Len(Faults)}
  \cup {<<R(f), R(g), R("ok")>> : f \in {"overloaded", "read_timeout", "unavailable", "drop", "write_timeout_batchlog"}, g \in {"overloaded", "read_timeout", "unavailable", "bootstrapping", "invalid"}}
  \cup {<<R("overloaded"), R("drop"), R("bootstrapping"), R("ok")>>, <<R("read_timeout"), R("read_timeout"), R("read_timeout"), R("ok")>>}
Kinds == <<"query", "execute", "batch", "query_iter", "execute_iter">>       \* (the last two: the first page of the iterator API)
Pols == <<"default", "downgrading", "fallthrough">>
Cls == <<"Quorum", "One", "EachQuorum">>
RECURSIVE SetToSeq(_)
SetToSeq(S) == IF S = {} THEN << >> ELSE LET x == CHOOSE y \in S : TRUE IN <<x>> \o SetToSeq(S \ {x})
ScriptSeq == SetToSeq(Scripts)
NoSpec == [max |-> 0, interval_ms |-> 0]
SpecScripts == {<<D("ok", 180), D("ok", 180), R("ok")>>, <<D("ok", 180), R("ok")>>, <<D("overloaded", 150), R("ok")>>, <<D("ok", 200), D("invalid", 100), R("ok")>>,
                <<D("invalid", 150), D("invalid", 10), D("invalid", 10)>>, <<R("ok")>>, <<D("ok", 120), D("ok", 120), D("ok", 120), D("ok", 120)>>}
VARIABLE c
Init ==
  \/ \E p \in 1..3 : \E idem \in 0..1 : \E s \in 1..Len(ScriptSeq) : \E k \in 1..5 : \E w \in 0..1 : \E cl \in 1..3 :
       /\ Full \/ (k \in {((p + idem + s) % 3) + 1, 4 + ((p + s) % 2)} /\ w = (p + s) % 2 /\ cl = ((idem + s) % 3) + 1)
       /\ c = [kind |-> Kinds[k], idem |-> idem, policy |-> Pols[p], policy_on |-> IF w = 1 THEN "statement" ELSE "profile", cl |-> Cls[cl],
               spec |-> NoSpec, script |-> ScriptSeq[s], settle_ms |-> 30, orphans |-> 0]
  \* the connection under the request is broken by the driver itself: too many old orphaned stream ids (a broken connection like any other)
  \/ \E p \in 1..2 : \E idem \in 0..1 :
       c = [kind |-> "execute", idem |-> idem, policy |-> Pols[p], policy_on |-> "profile", cl |-> "Quorum",
            spec |-> NoSpec, script |-> <<R("orphan_break"), R("ok")>>, settle_ms |-> 30, orphans |-> 1500]
  \/ \E k \in 1..5 : \E idem \in 0..1 : \E mx \in 1..2 : \E s \in SpecScripts :
       c = [kind |-> Kinds[k], idem |-> idem, policy |-> "default", policy_on |-> "profile", cl |-> "Quorum",
            spec |-> [max |-> mx, interval_ms |-> 40], script |-> s, settle_ms |-> 350, orphans |-> 0]
Next == UNCHANGED c
Spec == Init /\ [][Next]_c
Emit == PrintT(<<"SCEN", ToJson(c)>>)
=============================================================================
