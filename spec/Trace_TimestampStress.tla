------------------------ MODULE Trace_TimestampStress ------------------------
(* Judge for free-running runs: record = per-thread sequences of values       *)
(* (relative to a common base).  All values pairwise distinct, each thread's  *)
(* sequence strictly increasing.                                              *)
EXTENDS Naturals, Sequences, FiniteSets, Json, IOUtils, TLC
Rec == ndJsonDeserialize(IOEnv.TRACE)
VARIABLE l
Range(s) == {s[i] : i \in 1..Len(s)}
SumLen(ss) == LET F[i \in 0..Len(ss)] == IF i = 0 THEN 0 ELSE F[i-1] + Len(ss[i]) IN F[Len(ss)]
Good(r) == /\ \A t \in 1..Len(r.seqs) : \A i \in 1..Len(r.seqs[t]) - 1 : r.seqs[t][i] < r.seqs[t][i+1]
           /\ Cardinality(UNION {Range(r.seqs[t]) : t \in 1..Len(r.seqs)}) = SumLen(r.seqs)
TraceInit == l = 1 /\ TLCSet(1, 1)
TraceNext == l <= Len(Rec) /\ Good(Rec[l]) /\ l' = l + 1
TraceSpec == TraceInit /\ [][TraceNext]_l
Progress == TLCSet(1, IF l > TLCGet(1) THEN l ELSE TLCGet(1))
TraceAccepted == IF TLCGet(1) = Len(Rec) + 1 THEN TRUE
                 ELSE PrintT(<<"REJECTED at line", TLCGet(1)>>) /\ FALSE
=============================================================================
