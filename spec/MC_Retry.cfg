SPECIFICATION Spec
CONSTANTS Plan = 3
INVARIANTS NonIdempotentSafe DefaultSerialNoRetry Bounded FallthroughNever
CHECK_DEADLOCK FALSE
