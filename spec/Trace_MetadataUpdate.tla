------------------------- MODULE Trace_MetadataUpdate -------------------------
EXTENDS MetadataUpdate, Json, IOUtils, TLC
Rec == ndJsonDeserialize(IOEnv.TRACE)
VARIABLE l
Proj(t) == [kind |-> t.kind, has_peers |-> t.has_peers, peers |-> t.peers, refresh |-> t.refresh, hints |-> t.hints]
SeqOK(r) == LET e == Expected(r.ops) IN
            /\ Len(r.taken) = Len(e)
            /\ \A i \in 1..Len(e) : Proj(r.taken[i]) = e[i]
TraceInit == l = 1 /\ TLCSet(1, 1)
TraceNext == l <= Len(Rec) /\ (IF SeqOK(Rec[l]) THEN TRUE ELSE PrintT(<<"BAD", l>>)) /\ l' = l + 1
TraceSpec == TraceInit /\ [][TraceNext]_l
Progress == TLCSet(1, IF l > TLCGet(1) THEN l ELSE TLCGet(1))
TraceAccepted == IF TLCGet(1) = Len(Rec) + 1 THEN TRUE ELSE PrintT(<<"REJECTED at line", TLCGet(1)>>) /\ FALSE
=============================================================================
