--------------------------- MODULE MC_FrameStream ---------------------------
(* C08: response frames arrive back to back on one connection.  Generator of  *)
(* body-length sequences around the sizes where a reader may change strategy  *)
(* (empty, tiny, 64 KiB - 1 / 64 KiB / 64 KiB + 1, larger).                   *)
EXTENDS Naturals, Sequences, TLC, Json
Sizes == {0, 1, 9, 300, 65535, 65536, 65537, 70000, 90000, 131073}
VARIABLE c
Init == \/ \E a \in Sizes : \E b \in Sizes : c = <<a, b>>
        \/ \E a \in Sizes : \E b \in Sizes : \E d \in Sizes : c = <<a, b, d>>
        \/ c = <<9, 65537, 0, 90000, 1, 65536, 300, 131073, 9>>
        \/ c = <<200000, 200000, 5>>
Next == UNCHANGED c
Spec == Init /\ [][Next]_c
Emit == PrintT(<<"STREAM", ToJson([lens |-> c])>>)
=============================================================================
