---------------------------- MODULE MC_CqlRequest ----------------------------
(* Generator of request descriptions for C09 (compact: long byte strings are   *)
(* given as <<"rep", byte, n>> and expanded by the harness).                   *)
EXTENDS Naturals, Sequences, TLC, Json
I(n, m) == [neg |-> n, mag |-> m]
Val(b) == [k |-> "val", b |-> b]
NullC == [k |-> "null"]
UnsetC == [k |-> "unset"]
ValueLists == << << >>, <<Val(<<0, 0, 0, 1>>)>>, <<Val(<<97>>), NullC, UnsetC, Val(<< >>)>> >>
Bit(m, i) == (m \div i) % 2
ParamsOf(mask, vl, cl) ==
  [cl |-> cl,
   values |-> IF Bit(mask, 1) = 1 THEN ValueLists[vl] ELSE << >>,
   skip |-> Bit(mask, 2),
   page |-> <<Bit(mask, 4), 5000>>,
   ps |-> <<Bit(mask, 8), <<1, 2, 255>>>>,
   serial |-> <<Bit(mask, 16), 9>>,
   ts |-> <<Bit(mask, 32), I(1, <<57, 48>>)>>]
Txt == <<"rep", 97, 12>>
VARIABLE c
Stmts == << << >>,
            <<[kind |-> 0, text |-> <<"rep", 98, 7>>, values |-> ValueLists[2]]>>,
            <<[kind |-> 1, id |-> <<"rep", 7, 16>>, values |-> ValueLists[3]]>>,
            <<[kind |-> 0, text |-> <<"rep", 98, 7>>, values |-> << >>], [kind |-> 1, id |-> <<"rep", 7, 16>>, values |-> ValueLists[2]],
              [kind |-> 0, text |-> <<"rep", 99, 3>>, values |-> ValueLists[3]]>> >>
Init ==
  \/ \E mask \in 0..63 : \E vl \in 2..3 : \E tr \in 0..1 : \E cl \in {1, 4} :
        \/ c = [op |-> "query", text |-> Txt, params |-> ParamsOf(mask, vl, cl), tracing |-> tr]
        \/ c = [op |-> "execute", id |-> <<"rep", 5, 16>>, meta_id |-> <<mask % 2, <<"rep", 9, 16>>>>, params |-> ParamsOf(mask, vl, cl), tracing |-> tr]
  \* a paging state that is present but empty (a server may return one) is still a paging state
  \/ \E mask \in {8, 9, 24, 40, 56, 63} : \E tr \in 0..1 :
        \/ c = [op |-> "query", text |-> Txt, params |-> [ParamsOf(mask, 3, 1) EXCEPT !.ps = <<1, << >>>>], tracing |-> tr]
        \/ c = [op |-> "execute", id |-> <<"rep", 5, 16>>, meta_id |-> <<mask % 2, <<"rep", 9, 16>>>>, params |-> [ParamsOf(mask, 2, 4) EXCEPT !.ps = <<1, << >>>>], tracing |-> tr]
  \* path: 0 = value lists handed over already serialized; 1 = through the adapter the session uses (BatchValues + one context per statement)
  \/ \E ty \in 0..2 : \E s \in 1..4 : \E o \in 0..3 : \E extra \in 0..1 : \E path \in 0..1 :
        c = [op |-> "batch", path |-> path, type |-> ty, stmts |-> Stmts[s], nvalsets |-> Len(Stmts[s]) + extra * (IF s = 1 THEN 1 ELSE 2) - extra * (IF s = 1 THEN 0 ELSE 1),
             cl |-> 6, serial |-> <<o % 2, 8>>, ts |-> <<o \div 2, I(0, <<0, 0, 0, 0, 0, 0, 0, 64>>)>>, tracing |-> 0]
  \/ \E n \in {0, 1, 65535, 65536, 70000} : c = [op |-> "prepare", text |-> <<"rep", 120, n>>, tracing |-> 0]
  \/ \E n \in {0, 1, 65535, 65536} : c = [op |-> "execute", id |-> <<"rep", 5, n>>, meta_id |-> <<0, <<"rep", 9, 0>>>>, params |-> ParamsOf(0, 2, 1), tracing |-> 0]
  \/ \E n \in {65535, 65536} : c = [op |-> "execute", id |-> <<"rep", 5, 16>>, meta_id |-> <<1, <<"rep", 9, n>>>>, params |-> ParamsOf(0, 2, 1), tracing |-> 0]
  \/ \E n \in {65535, 65536} : c = [op |-> "query", text |-> Txt, params |-> [ParamsOf(1, 2, 1) EXCEPT !.values = <<"nulls", n>>], tracing |-> 0]
  \/ \E n \in {65535, 65536, 65537} : c = [op |-> "execute", id |-> <<"rep", 5, 16>>, meta_id |-> <<0, <<"rep", 9, 0>>>>, params |-> [ParamsOf(1, 2, 1) EXCEPT !.values = <<"nulls_row", n>>], tracing |-> 0]
  \/ \E n \in {65535, 65536} : c = [op |-> "query", text |-> <<"rep", 113, n>>, params |-> ParamsOf(5, 2, 1), tracing |-> 1]
  \* values given by NAME (a map) to bind markers some of which carry the same name: one value per marker, in marker order
  \/ \E names \in {<<"a">>, <<"a", "b">>, <<"b", "a">>, <<"a", "b", "a">>, <<"a", "a">>, <<"c", "a", "b", "a", "c">>} : \E m \in {"btree", "hash"} :
       c = [op |-> "execute", id |-> <<"rep", 5, 16>>, meta_id |-> <<0, <<"rep", 9, 0>>>>, params |-> [ParamsOf(1, 2, 1) EXCEPT !.values = <<"named", names, m>>], tracing |-> 0]
  \/ \E ev \in {<< >>, <<"TOPOLOGY_CHANGE", "STATUS_CHANGE", "SCHEMA_CHANGE">>, <<"STATUS_CHANGE">>} : c = [op |-> "register", events |-> ev, tracing |-> 0]
  \/ c = [op |-> "options", tracing |-> 0]
  \/ \E n \in {0, 5, 300} : c = [op |-> "auth", token |-> <<"rep", 200, n>>, tracing |-> 0]
  \/ \E k \in 0..3 : c = [op |-> "startup", options |-> [i \in 1..k |-> <<<<"rep", 64 + i, i>>, <<"rep", 48 + i, 3 * i>>>>], tracing |-> 0]
  \* [string]s that are not ASCII: the length prefix counts bytes, not characters (2-, 3- and 4-byte UTF-8 sequences)
  \/ c = [op |-> "startup", tracing |-> 0,
          options |-> << <<<<65, 80, 80>>, <<122, 97, 197, 188, 195, 179, 197, 130, 196, 135, 45, 240, 159, 166, 128>>>>,
                         <<<<197, 188, 226, 130, 172>>, <<"rep", 66, 3>>>> >>]
Next == UNCHANGED c
Spec == Init /\ [][Next]_c
Emit == PrintT(<<"CASE", ToJson(c)>>)
=============================================================================
