------------------------------ MODULE Prepared ------------------------------
(***************************************************************************)
(* C14 — design model: one prepared SELECT, two nodes, a server that may    *)
(* evict prepared statements, change the schema (with or without evicting) *)
(* and start handing out a different statement id; a client that executes  *)
(* through the driver's algorithm (network/connection.rs):                  *)
(*   Send      EXECUTE(id, metadata id it knows, skip-metadata flag)        *)
(*   OnReply   unprepared -> PREPARE on that node -> id check -> EXECUTE     *)
(*             rows       -> decode with the metadata in the frame, or with *)
(*                           the metadata it holds; adopt a new id + columns*)
(* The constant AdoptOnReprepare says whether the client takes the result   *)
(* metadata announced by a RE-preparation (the property says the rows are   *)
(* decoded with the metadata most recently announced - at preparation or    *)
(* with a new metadata id).  TLC checks that every completed execution      *)
(* returns exactly the rows the node encoded, or the id-changed error.      *)
(***************************************************************************)
EXTENDS PreparedProp, TLC
CONSTANTS Ext1, Ext2,          \* 0 | 1 per node: the node advertises the metadata-id extension
          Skip,                \* 0 | 1: use_cached_result_metadata
          AdoptOnReprepare,    \* BOOLEAN
          MaxVer, MaxOps
Nodes == {1, 2}
NoOut == [kind |-> "none", ncols |-> 0, ver |-> 0]
Ext == <<Ext1, Ext2>>
VARIABLES ver, prep, salt,     \* server
          cols, cmid,          \* client: columns / metadata id it holds for the statement
          st,                  \* client step: "idle" | "sent" | "reprep" | "resent"
          node, req,           \* current execution: node, last request [rmid, skip, usedcols]
          out,                 \* last completed execution: [kind ("none" | "rows" | "idchanged"), ncols, ver]
          ops
vars == <<ver, prep, salt, cols, cmid, st, node, req, out, ops>>

Init == /\ ver = 1 /\ prep = [n \in Nodes |-> TRUE] /\ salt = [n \in Nodes |-> 0]
        /\ cols = NCols(1) /\ cmid \in {IF Ext[n] = 1 THEN Some(Mid(1)) ELSE None : n \in Nodes}     \* whichever PREPARED answer the handle kept
        /\ st = "idle" /\ node = 1 /\ req = [rmid |-> None, skip |-> 0, used |-> 0] /\ out = NoOut /\ ops = 0

\* ---- server events (only between executions of this single caller) ----
Evict(n) == st = "idle" /\ prep' = [prep EXCEPT ![n] = FALSE] /\ UNCHANGED <<ver, salt, cols, cmid, st, node, req, out, ops>>
Alter == /\ st = "idle" /\ ver < MaxVer /\ ver' = ver + 1
         /\ ~(Skip = 1 /\ \E n \in Nodes : Ext[n] = 0)      \* without the extension and with skip-metadata the protocol cannot announce it
         /\ UNCHANGED <<prep, salt, cols, cmid, st, node, req, out, ops>>
AlterEvict == /\ st = "idle" /\ ver < MaxVer /\ ver' = ver + 1 /\ prep' = [n \in Nodes |-> FALSE]
              /\ UNCHANGED <<salt, cols, cmid, st, node, req, out, ops>>
IdChange(n) == /\ st = "idle" /\ salt' = [salt EXCEPT ![n] = 1] /\ prep' = [prep EXCEPT ![n] = FALSE]
               /\ UNCHANGED <<ver, cols, cmid, st, node, req, out, ops>>

\* ---- client ----
MkReq(n) == LET sk == IF cols = 0 THEN 0 ELSE IF Skip = 1 \/ Ext[n] = 1 THEN 1 ELSE 0 IN
            [rmid |-> IF Ext[n] = 1 THEN (IF sk = 1 /\ cmid.some = 1 THEN cmid ELSE Some(<< >>)) ELSE None, skip |-> sk, used |-> cols]
Send(n) == /\ st = "idle" /\ ops < MaxOps /\ ops' = ops + 1 /\ node' = n /\ req' = MkReq(n) /\ st' = "sent" /\ out' = NoOut
           /\ UNCHANGED <<ver, prep, salt, cols, cmid>>
Decode(reply) == \* number of columns the rows are decoded with
  IF reply = "rows_nometa" THEN req.used ELSE NCols(ver)
OnReply ==
  /\ st \in {"sent", "resent"}
  /\ LET reply == ExecReply(Ext[node], ver, prep[node], req.rmid, req.skip) IN
     IF reply = "unprepared"
     THEN /\ st = "sent" /\ st' = "reprep" /\ UNCHANGED <<cols, cmid, out>>
     ELSE /\ st' = "idle" /\ out' = [kind |-> "rows", ncols |-> Decode(reply), ver |-> ver]
          /\ IF reply = "rows_meta_newid" THEN cols' = NCols(ver) /\ cmid' = Some(Mid(ver)) ELSE UNCHANGED <<cols, cmid>>
  /\ UNCHANGED <<ver, prep, salt, node, req, ops>>
Reprepare ==
  /\ st = "reprep" /\ prep' = [prep EXCEPT ![node] = (salt[node] = 0)]     \* a node that hands out another id prepares THAT id, not ours
  /\ IF salt[node] = 1 THEN st' = "idle" /\ out' = [kind |-> "idchanged", ncols |-> 0, ver |-> ver] /\ UNCHANGED <<cols, cmid, req>>
     ELSE /\ st' = "resent" /\ UNCHANGED out
          /\ LET adopt == Ext[node] = 1 \/ AdoptOnReprepare IN       \* with an id in PREPARED the driver adopts it already
             /\ cols' = IF adopt THEN NCols(ver) ELSE cols
             /\ cmid' = IF Ext[node] = 1 THEN Some(Mid(ver)) ELSE cmid
          /\ req' = LET sk == IF cols' = 0 THEN 0 ELSE IF Skip = 1 \/ Ext[node] = 1 THEN 1 ELSE 0 IN
                    [rmid |-> IF Ext[node] = 1 THEN (IF sk = 1 /\ cmid'.some = 1 THEN cmid' ELSE Some(<< >>)) ELSE None, skip |-> sk, used |-> cols']
  /\ UNCHANGED <<ver, salt, node, ops>>

Next == (\E n \in Nodes : Evict(n) \/ IdChange(n) \/ Send(n)) \/ Alter \/ AlterEvict \/ OnReply \/ Reprepare
Spec == Init /\ [][Next]_vars

\* a completed execution returned exactly what the node encoded (all columns of the version it was served at), or the id-changed error
\* — and the error only from a node that really hands out another id
Faithful == out.kind # "none" => \/ (out.kind = "rows" /\ out.ncols = NCols(out.ver))
                            \/ (out.kind = "idchanged" /\ salt[node] = 1)
NeverStuck == st \in {"idle", "sent", "reprep", "resent"}
=============================================================================
