------------------------------ MODULE CqlValue ------------------------------
(***************************************************************************)
(* C01 — the CQL v4 wire encoding of values (native_protocol_v4 section 6, *)
(* ScyllaDB/Cassandra vector encoding), as an executable reference.        *)
(*                                                                         *)
(* Types T and values V are the records described in                       *)
(* harness/vh-cql/FORMAT.md.  Integers are sign + little-endian base-256   *)
(* magnitude limbs (TLC integers are 32 bit).                              *)
(*   Cell(T, v)  : the [value] as it appears on the wire: 4-byte length    *)
(*                 (-1 null, -2 not set) followed by the body              *)
(*   Pad(T, v)   : what decoding that cell against T yields: v with short  *)
(*                 tuples / UDTs padded with nulls                         *)
(***************************************************************************)
EXTENDS Naturals, Sequences, FiniteSets

S1(v, F(_)) == CHOOSE r \in {F(x) : x \in {v}} : TRUE
RECURSIVE Body(_, _), Cell(_, _), Pad(_, _), FixedWidth(_)

Concat(ss) == LET F[i \in 0..Len(ss)] == IF i = 0 THEN << >> ELSE S1(F[i - 1], LAMBDA acc : acc \o ss[i]) IN F[Len(ss)]
Rev(s) == [i \in 1..Len(s) |-> s[Len(s) + 1 - i]]

\* big-endian w bytes of a small natural
BE(n, w) == [i \in 1..w |-> CASE w - i = 0 -> n % 256
                              [] w - i = 1 -> (n \div 256) % 256
                              [] w - i = 2 -> (n \div 65536) % 256
                              [] w - i = 3 -> (n \div 16777216) % 256
                              [] OTHER -> 0]
Int32(n) == BE(n, 4)
NullLen == <<255, 255, 255, 255>>
UnsetLen == <<255, 255, 255, 254>>

(**************************** integers on limbs ****************************)
\* magnitude limbs (little endian) padded with zeros to w limbs
PadLimbs(m, w) == [i \in 1..w |-> IF i <= Len(m) THEN m[i] ELSE 0]
\* two's complement negation of w little-endian limbs
NegLimbs(m, w) ==
  LET inv == [i \in 1..w |-> 255 - m[i]]
      R[i \in 0..w] == IF i = 0 THEN << << >>, 1 >>
                       ELSE S1(R[i - 1], LAMBDA acc : <<Append(acc[1], (inv[i] + acc[2]) % 256), (inv[i] + acc[2]) \div 256>>)
  IN R[w][1]
\* two's complement, big endian, w bytes
TwosBE(I, w) == S1(PadLimbs(I.mag, w), LAMBDA m : Rev(IF I.neg = 1 THEN NegLimbs(m, w) ELSE m))
\* unsigned big endian, w bytes
UnsBE(I, w) == Rev(PadLimbs(I.mag, w))

\* minimal number of bytes of the two's complement representation
VarintLen(I) ==
  LET n == Len(I.mag) IN
  IF n = 0 THEN 1
  ELSE IF I.neg = 0 THEN (IF I.mag[n] >= 128 THEN n + 1 ELSE n)
  ELSE IF I.mag[n] < 128 \/ (I.mag[n] = 128 /\ \A i \in 1..(n - 1) : I.mag[i] = 0) THEN n ELSE n + 1
Varint(I) == TwosBE(I, VarintLen(I))

\* zig-zag: 2|n| for n >= 0, 2|n| - 1 for n < 0   (as unsigned magnitude limbs, 9 limbs are enough)
Double(m) == LET w == Len(m) + 1
                 R[i \in 0..w] == IF i = 0 THEN << << >>, 0 >>
                                  ELSE S1(R[i - 1], LAMBDA acc :
                                         LET x == (IF i <= Len(m) THEN 2 * m[i] ELSE 0) + acc[2] IN <<Append(acc[1], x % 256), x \div 256>>)
             IN R[w][1]
Dec1(m) == \* m - 1 for m > 0
  LET R[i \in 0..Len(m)] == IF i = 0 THEN << << >>, 1 >>
                            ELSE S1(R[i - 1], LAMBDA acc :
                                   IF m[i] >= acc[2] THEN <<Append(acc[1], m[i] - acc[2]), 0>> ELSE <<Append(acc[1], 255), 1>>)
  IN R[Len(m)][1]
Trim(m) == LET nz == {i \in 1..Len(m) : m[i] # 0} IN
           IF nz = {} THEN << >> ELSE SubSeq(m, 1, CHOOSE i \in nz : \A j \in nz : j <= i)
ZigZag(I) == Trim(IF I.neg = 1 THEN Dec1(Double(I.mag)) ELSE Double(I.mag))

BitLen(b) == CASE b = 0 -> 0 [] b < 2 -> 1 [] b < 4 -> 2 [] b < 8 -> 3 [] b < 16 -> 4 [] b < 32 -> 5 [] b < 64 -> 6 [] b < 128 -> 7 [] OTHER -> 8
\* Cassandra's unsigned vint of a magnitude (< 2^64)
UVint(m) ==
  LET n == Len(m)
      bits == IF n = 0 THEN 0 ELSE 8 * (n - 1) + BitLen(m[n])
      size == IF bits <= 7 THEN 1 ELSE IF (bits + 6) \div 7 > 9 THEN 9 ELSE (bits + 6) \div 7
      Mask(extra) == CASE extra = 0 -> 0 [] extra = 1 -> 128 [] extra = 2 -> 192 [] extra = 3 -> 224 [] extra = 4 -> 240
                       [] extra = 5 -> 248 [] extra = 6 -> 252 [] extra = 7 -> 254 [] OTHER -> 255
  IN IF size = 9 THEN <<255>> \o Rev(PadLimbs(m, 8))
     ELSE S1(Rev(PadLimbs(m, size)), LAMBDA be : [i \in 1..size |-> IF i = 1 THEN be[1] + Mask(size - 1) ELSE be[i]])
SVint(I) == UVint(ZigZag(I))

(********************************* types ***********************************)
FixedWidth(T) ==   \* element size when a vector stores the elements unprefixed (Cassandra's valueLengthIfFixed), else 0
  IF T.k = "native" THEN
     CASE T.n = "boolean" -> 1 [] T.n \in {"int", "float"} -> 4 [] T.n \in {"bigint", "double", "timestamp"} -> 8
       [] T.n \in {"uuid", "timeuuid"} -> 16 [] OTHER -> 0
  ELSE IF T.k = "vector" THEN FixedWidth(T.e) * T.d      \* NB: not recursive in TLC terms: depth bounded by data
  ELSE 0

NativeBody(n, v) ==
  CASE n = "tinyint" -> TwosBE(v.i, 1)
    [] n = "smallint" -> TwosBE(v.i, 2)
    [] n = "int" -> TwosBE(v.i, 4)
    [] n \in {"bigint", "counter", "time", "timestamp"} -> TwosBE(v.i, 8)
    [] n = "date" -> UnsBE(v.i, 4)
    [] n = "varint" -> Varint(v.i)
    [] n = "decimal" -> TwosBE(v.scale, 4) \o Varint(v.int)
    [] n = "boolean" -> <<v.v>>
    [] n = "duration" -> SVint(v.months) \o SVint(v.days) \o SVint(v.nanos)
    [] OTHER -> v.b         \* float double text ascii blob uuid timeuuid inet: the bytes

Cell(T, v) ==
  CASE v.k \in {"null", "absent"} -> NullLen        \* a UDT field the value does not list is sent as null
    [] v.k = "unset" -> UnsetLen
    [] v.k = "empty" -> <<0, 0, 0, 0>>
    [] OTHER -> S1(Body(T, v), LAMBDA b : Int32(Len(b)) \o b)

Body(T, v) ==
  CASE T.k = "native" -> NativeBody(T.n, v)
    [] T.k \in {"list", "set"} -> Int32(Len(v.vs)) \o Concat([i \in 1..Len(v.vs) |-> Cell(T.e, v.vs[i])])
    [] T.k = "map" -> Int32(Len(v.kvs)) \o Concat([i \in 1..Len(v.kvs) |-> Cell(T.a, v.kvs[i][1]) \o Cell(T.b, v.kvs[i][2])])
    [] T.k = "tuple" -> Concat([i \in 1..Len(v.vs) |-> Cell(T.ts[i], v.vs[i])])
    [] T.k = "udt" -> Concat([i \in 1..Len(v.vs) |-> Cell(T.fs[i].t, v.vs[i])])
    [] T.k = "vector" ->
         IF FixedWidth(T.e) > 0 THEN Concat([i \in 1..Len(v.vs) |-> Body(T.e, v.vs[i])])
         ELSE Concat([i \in 1..Len(v.vs) |-> S1(Body(T.e, v.vs[i]), LAMBDA b : UVint(Trim(PadLimbs(<<Len(b) % 256, Len(b) \div 256>>, 2))) \o b)])

Null == [k |-> "null"]
Pad(T, v) ==
  IF v.k = "absent" THEN Null ELSE IF v.k \in {"null", "unset", "empty"} THEN v
  ELSE CASE T.k = "native" -> v
    [] T.k \in {"list", "set", "vector"} -> [k |-> "seq", vs |-> [i \in 1..Len(v.vs) |-> Pad(T.e, v.vs[i])]]
    [] T.k = "map" -> [k |-> "map", kvs |-> [i \in 1..Len(v.kvs) |-> <<Pad(T.a, v.kvs[i][1]), Pad(T.b, v.kvs[i][2])>>]]
    [] T.k = "tuple" -> IF Len(v.vs) = 0 /\ Len(T.ts) > 0 THEN [k |-> "empty"]     \* a zero-length tuple cell IS the 'empty' value on the wire
                        ELSE [k |-> "tup", vs |-> [i \in 1..Len(T.ts) |-> IF i <= Len(v.vs) THEN Pad(T.ts[i], v.vs[i]) ELSE Null]]
    [] T.k = "udt" -> [k |-> "udt", vs |-> [i \in 1..Len(T.fs) |-> IF i <= Len(v.vs) THEN Pad(T.fs[i].t, v.vs[i]) ELSE Null]]
=============================================================================
