SPECIFICATION Spec
CONSTANTS
  Threads = {1, 2, 3}
  Calls = 2
  MaxClock = 3
  CasChecksSeen = TRUE
VIEW View
INVARIANTS Unique PerThreadIncreasing LastIsMax
PROPERTY Terminates
CHECK_DEADLOCK FALSE
