-------------------------------- MODULE Pager --------------------------------
(***************************************************************************)
(* C07 — paged iteration.  One paged query: a producer task (the pager     *)
(* worker) fetches page after page through the retry core and hands them   *)
(* over a bounded channel to the consumer's row stream.                    *)
(*                                                                         *)
(* A scenario sc = [pages, faults, consumer]: the server's split of the    *)
(* result into pages (any sizes, also empty), for every page the faults    *)
(* that hit the successive attempts to fetch it, and how the consumer      *)
(* behaves.  Implementation-shaped actions (client/pager.rs):              *)
(*   WorkerRequest  - send the request for page k carrying the paging      *)
(*                    state returned with page k-1 (none for the first)    *)
(*   ServerAnswer   - the node answers: a fault (the retry policy decides: *)
(*                    same node / next node of the plan / give up) or rows *)
(*   WorkerSend     - hand the page to the channel (capacity 1), move on   *)
(*   WorkerFail     - hand the error to the channel, stop                  *)
(*   ConsumerRow / ConsumerNextPage / ConsumerEnd / ConsumerDrop           *)
(* The retry decisions are C06's DefaultDecide (idempotent statement).     *)
(***************************************************************************)
EXTENDS PagerProp, TLC

VARIABLES sc,        \* the scenario (never changes)
          k,         \* page being fetched (1-based)
          fi,        \* faults of page k already consumed
          fl, left,  \* retry-policy flags and plan targets left for the current page request
          phase,     \* worker: "idle" | "inflight" | "sending" | "failing" | "done" | "failed" | "stopped"
          chan,      \* channel worker -> consumer: sequence of pages (row sequences) or <<"ERR">> markers
          cur,       \* rows of the page the consumer is reading
          got,       \* rows delivered to the consumer so far
          cstate,    \* consumer: "open" | "ended" | "erred" | "dropped"
          reqs       \* history: page index of every request that reached a node
vars == <<sc, k, fi, fl, left, phase, chan, cur, got, cstate, reqs>>

(********************************* machine *********************************)
Init0(s) == /\ sc = s /\ k = 1 /\ fi = 0 /\ fl = Fresh /\ left = PlanSize /\ phase = "idle"
            /\ chan = << >> /\ cur = << >> /\ got = << >> /\ cstate = "open" /\ reqs = << >>

WorkerRequest ==
  /\ phase = "idle" /\ phase' = "inflight" /\ reqs' = Append(reqs, k)
  /\ UNCHANGED <<sc, k, fi, fl, left, chan, cur, got, cstate>>

ServerAnswer ==
  /\ phase = "inflight"
  /\ IF fi < Len(sc.faults[k])
     THEN LET f == sc.faults[k][fi + 1] IN
          /\ fi' = fi + 1
          /\ IF f = "delay" THEN phase' = "sending" /\ UNCHANGED <<fl, left>>
             ELSE IF f = "unprepared" THEN phase' = "idle" /\ UNCHANGED <<fl, left>>      \* re-prepared, same request again
             ELSE LET d == DefaultDecide(fl, TRUE, "LocalQuorum", SymOf(f)) IN
                  IF d.d = "same" THEN phase' = "idle" /\ fl' = d.fl /\ UNCHANGED left
                  ELSE IF d.d = "next" /\ left > 1 THEN phase' = "idle" /\ fl' = d.fl /\ left' = left - 1
                  ELSE phase' = "failing" /\ UNCHANGED <<fl, left>>
     ELSE phase' = "sending" /\ UNCHANGED <<fi, fl, left>>
  /\ UNCHANGED <<sc, k, chan, cur, got, cstate, reqs>>

\* the consumer is gone: a send fails and the worker stops
WorkerStop == /\ phase \in {"sending", "failing"} /\ cstate = "dropped" /\ phase' = "stopped"
              /\ UNCHANGED <<sc, k, fi, fl, left, chan, cur, got, cstate, reqs>>
WorkerSend ==
  /\ phase = "sending" /\ cstate # "dropped" /\ Len(chan) < 1
  /\ chan' = Append(chan, sc.pages[k])
  /\ IF k = Len(sc.pages) THEN phase' = "done" /\ UNCHANGED <<k, fi, fl, left>>
     ELSE phase' = "idle" /\ k' = k + 1 /\ fi' = 0 /\ fl' = Fresh /\ left' = PlanSize
  /\ UNCHANGED <<sc, cur, got, cstate, reqs>>
WorkerFail ==
  /\ phase = "failing" /\ cstate # "dropped" /\ Len(chan) < 1
  /\ chan' = Append(chan, ERR) /\ phase' = "failed"
  /\ UNCHANGED <<sc, k, fi, fl, left, cur, got, cstate, reqs>>

WantsDrop == sc.consumer.mode = "drop_after" /\ Len(got) >= sc.consumer.n
ConsumerRow ==
  /\ cstate = "open" /\ ~WantsDrop /\ cur # << >>
  /\ got' = Append(got, Head(cur)) /\ cur' = Tail(cur)
  /\ UNCHANGED <<sc, k, fi, fl, left, phase, chan, cstate, reqs>>
ConsumerNextPage ==
  /\ cstate = "open" /\ ~WantsDrop /\ cur = << >> /\ chan # << >>
  /\ chan' = Tail(chan)
  /\ IF Head(chan) = ERR THEN cstate' = "erred" /\ UNCHANGED cur ELSE cur' = Head(chan) /\ UNCHANGED cstate
  /\ UNCHANGED <<sc, k, fi, fl, left, phase, got, reqs>>
ConsumerEnd ==
  /\ cstate = "open" /\ ~WantsDrop /\ cur = << >> /\ chan = << >> /\ phase = "done"
  /\ cstate' = "ended"
  /\ UNCHANGED <<sc, k, fi, fl, left, phase, chan, cur, got, reqs>>
ConsumerDrop ==
  /\ cstate = "open" /\ WantsDrop /\ cstate' = "dropped"
  /\ UNCHANGED <<sc, k, fi, fl, left, phase, chan, cur, got, reqs>>

Next == WorkerRequest \/ ServerAnswer \/ WorkerSend \/ WorkerFail \/ WorkerStop
        \/ ConsumerRow \/ ConsumerNextPage \/ ConsumerEnd \/ ConsumerDrop
Fairness == WF_vars(WorkerRequest) /\ WF_vars(ServerAnswer) /\ WF_vars(WorkerSend) /\ WF_vars(WorkerFail) /\ WF_vars(WorkerStop)
            /\ WF_vars(ConsumerRow) /\ WF_vars(ConsumerNextPage) /\ WF_vars(ConsumerEnd) /\ WF_vars(ConsumerDrop)

(******************************** properties *******************************)
All == Flat(sc.pages)
\* rows come out in server order, each at most once, nothing invented
OrderedPrefix == IsPrefix(got, All)
\* a normal end means every row of every page was delivered
EndMeansAll == cstate = "ended" => got = All /\ FirstFail(sc) = 0
\* an error surfaces after all rows of the earlier pages (and only when a page could not be fetched)
ErrorAfterEarlier == cstate = "erred" => FirstFail(sc) > 0 /\ got = ExpItems(sc)
\* requests: page by page, never back, never skipping; each carries the state of the page before (page index = state identity)
ReqsMonotone == /\ IsPrefix(reqs, ExpReqs(sc))
                /\ \A i \in 1..(Len(reqs) - 1) : reqs[i + 1] \in {reqs[i], reqs[i] + 1}
\* the summary functions used to judge real executions agree with the machine at its end
SummaryAgrees == cstate \in {"ended", "erred"} => reqs = ExpReqs(sc) /\ got = ExpItems(sc)
\* the worker is never more than one page ahead of what the channel holds
Bounded == Len(chan) <= 1
Terminates == <>(cstate # "open")
=============================================================================
