------------------------------ MODULE Replicas ------------------------------
(***************************************************************************)
(* C04 — replica placement as the servers compute it.                      *)
(*                                                                         *)
(* ring : sequence of <<pos, node>> sorted by pos (token positions are     *)
(*        naturals; the harness embeds them order-preservingly in i64)     *)
(* attr : sequence indexed by node: <<dc, rack>> ("" = unknown)            *)
(*                                                                         *)
(* SimpleStrategy: the first RF distinct nodes clockwise from the token.   *)
(* NetworkTopologyStrategy: per datacentre, walking that datacentre's      *)
(* nodes clockwise, a node is taken if its rack is new or if rack repeats  *)
(* are still allowed (RF minus rack count), until min(RF, nodes) are found.*)
(***************************************************************************)
EXTENDS Naturals, Sequences, FiniteSets

S1(v, F(_)) == CHOOSE r \in {F(x) : x \in {v}} : TRUE
Min(a, b) == IF a < b THEN a ELSE b
SeqSet(s) == {s[i] : i \in 1..Len(s)}

\* nodes clockwise from query position q (first ring entry with pos >= q, wrapping), with repetitions
CW(ring, q) ==
  LET n == Len(ring)
      ge == {i \in 1..n : ring[i][1] >= q}
      start == IF ge = {} THEN 1 ELSE CHOOSE i \in ge : \A j \in ge : i <= j
  IN [k \in 1..n |-> ring[((start - 1 + k - 1) % n) + 1][2]]

\* first occurrences only, order preserved
Uniq(s) == LET U[i \in 0..Len(s)] == IF i = 0 THEN << >>
                                      ELSE S1(U[i - 1], LAMBDA acc : IF s[i] \in SeqSet(acc) THEN acc ELSE Append(acc, s[i]))
           IN U[Len(s)]

Take(s, n) == SubSeq(s, 1, Min(n, Len(s)))

Simple(ring, q, rf) == S1(Uniq(CW(ring, q)), LAMBDA u : Take(u, rf))

Dc(attr, n) == attr[n][1]
Rack(attr, n) == attr[n][2]

\* replicas of one datacentre, in the order they are taken
NtsDc(ring, attr, q, dc, rf) ==
  IF dc = "" THEN << >> ELSE
  S1(Uniq(SelectSeq(CW(ring, q), LAMBDA n : Dc(attr, n) = dc)), LAMBDA dcseq :
    LET racks == {Rack(attr, dcseq[i]) : i \in 1..Len(dcseq)}
        need == Min(rf, Len(dcseq))
        budget0 == IF rf > Cardinality(racks) THEN rf - Cardinality(racks) ELSE 0
        \* state: <<taken, used racks, budget>>
        W[i \in 0..Len(dcseq)] ==
          IF i = 0 THEN << << >>, {}, budget0 >>
          ELSE S1(W[i - 1], LAMBDA st :
                 IF Len(st[1]) >= need THEN st
                 ELSE IF Rack(attr, dcseq[i]) \notin st[2]
                      THEN <<Append(st[1], dcseq[i]), st[2] \cup {Rack(attr, dcseq[i])}, st[3]>>
                      ELSE IF st[3] > 0 THEN <<Append(st[1], dcseq[i]), st[2], st[3] - 1>>
                      ELSE st)
    IN W[Len(dcseq)][1])

\* strategy: [kind |-> "simple", rf |-> n] | [kind |-> "nts", rfs |-> sequence of <<dc, rf>>] | [kind |-> "other"]
ReplicaSetOf(ring, attr, q, strat) ==
  CASE strat.kind = "simple" -> SeqSet(Simple(ring, q, strat.rf))
    [] strat.kind = "nts" -> UNION {SeqSet(NtsDc(ring, attr, q, strat.rfs[i][1], strat.rfs[i][2])) : i \in 1..Len(strat.rfs)}
    [] OTHER -> SeqSet(Simple(ring, q, 1))                 \* unknown / local strategy: treated as SimpleStrategy RF 1

\* restriction to a datacentre ("" = no restriction)
InDc(ring, attr, q, strat, dc) ==
  IF dc = "" THEN ReplicaSetOf(ring, attr, q, strat)
  ELSE {n \in ReplicaSetOf(ring, attr, q, strat) : Dc(attr, n) = dc}

\* the ring-ordered view of a set: its nodes in global clockwise order from the token
Ordered(ring, q, set) == S1(Uniq(CW(ring, q)), LAMBDA u : SelectSeq(u, LAMBDA n : n \in set))
=============================================================================
