----------------------------- MODULE MC_CqlValue -----------------------------
(* Generator of (type, value) vectors for C01 and sanity facts of the reference. *)
EXTENDS CqlValueSamples, TLC, Json
CONSTANTS Depth2     \* BOOLEAN: include the nested shapes
Depth1 == {NT(n) : n \in Natives}
  \cup {L(NT(n)) : n \in ElemN} \cup {St(NT(n)) : n \in ElemN}
  \cup {M(NT(a), NT(b)) : a \in {"int", "text"}, b \in ElemN}
  \cup {Tp(<<NT("int"), NT("text")>>), Tp(<<NT("varint"), NT("boolean"), NT("bigint")>>), Tp(<<NT("duration")>>)}
  \cup {U(<<F("a", NT("int")), F("b", NT("text")), F("c", NT(n))>>) : n \in {"bigint", "varint", "uuid"}}
  \cup {V(NT("int"), 3), V(NT("text"), 2), V(NT("bigint"), 1), V(NT("boolean"), 2), V(NT("varint"), 2), V(NT("uuid"), 2), V(NT("duration"), 1), V(NT("smallint"), 2), V(NT("blob"), 2), V(NT("ascii"), 3)}
  \* a vector over EVERY native type: which element types are stored without a length prefix is a table (FixedWidth)
  \cup {V(NT(n), 2) : n \in Natives \ {"counter"}}
Nested == {L(L(NT("int"))), M(NT("text"), L(NT("int"))), L(Tp(<<NT("int"), NT("text")>>)), Tp(<<L(NT("int")), M(NT("int"), NT("text"))>>),
           U(<<F("x", L(NT("text"))), F("y", Tp(<<NT("int"), NT("boolean")>>))>>), V(V(NT("int"), 2), 2), V(L(NT("int")), 2),
           L(U(<<F("a", NT("int")), F("b", NT("text"))>>)), St(Tp(<<NT("int"), NT("text")>>)), M(NT("int"), U(<<F("a", NT("varint"))>>)),
           L(V(NT("text"), 2)), M(NT("text"), M(NT("int"), L(NT("bigint")))), L(L(L(NT("text")))),
           Tp(<<Tp(<<NT("int"), Tp(<<NT("text"), NT("boolean")>>)>>), NT("int")>>), V(Tp(<<NT("int"), NT("text")>>), 2)}
Types == IF Depth2 THEN Depth1 \cup Nested ELSE Depth1

\* the special zero-length value exists for types whose natural encoding is never empty (for text / ascii / blob a
\* zero-length cell simply is the empty string); counters and durations do not have it
EmptyOk(T) == \/ T.k = "native" /\ T.n \notin {"counter", "duration", "text", "ascii", "blob"}
              \/ (T.k = "tuple" /\ Len(T.ts) > 0)
              \/ (T.k = "vector" /\ T.d > 0)      \* (collections and UDTs do not have it)
VARIABLE c
Init == \E T \in Types :
          \/ \E i \in 1..Len(Vals(T)) : c = [t |-> T, v |-> Vals(T)[i]]
          \/ c = [t |-> T, v |-> Null0]
          \/ c = [t |-> T, v |-> [k |-> "unset"]]
          \/ (EmptyOk(T) /\ c = [t |-> T, v |-> [k |-> "empty"]])
        \* vector elements whose length sits on the boundaries of the 1-byte / 2-byte vint length prefix
        \/ \E n \in {127, 128, 129, 300} :
             \/ c = [t |-> V(NT("blob"), 2), v |-> [k |-> "seq", vs |-> <<Raw([i \in 1..n |-> (i * 7) % 256]), Raw(<<1>>)>>]]
             \/ c = [t |-> V(NT("text"), 2), v |-> [k |-> "seq", vs |-> <<Txt(<<98>>), Txt([i \in 1..n |-> 97])>>]]
Next == UNCHANGED c
Spec == Init /\ [][Next]_c
\* sanity of the reference on every generated vector: the length prefix is the body length
PrefixOK == LET cell == Cell(c.t, c.v) IN
   c.v.k \notin {"null", "unset"} => (Len(cell) >= 4 /\ cell[1] * 16777216 + cell[2] * 65536 + cell[3] * 256 + cell[4] = Len(cell) - 4)
Emit == PrintT(<<"VEC", ToJson(c)>>)
=============================================================================
