----------------------------- MODULE MC_CqlValue -----------------------------
(* Generator of (type, value) vectors for C01 and sanity facts of the reference. *)
EXTENDS CqlValue, TLC, Json
CONSTANTS Depth2     \* BOOLEAN: include the nested shapes
I(n, m) == [neg |-> n, mag |-> m]
IV(n, m) == [k |-> "i", i |-> I(n, m)]
NT(n) == [k |-> "native", n |-> n]
Txt(b) == [k |-> "s", b |-> b]
Raw(b) == [k |-> "bytes", b |-> b]
Bits(b) == [k |-> "bits", b |-> b]
Null0 == [k |-> "null"]
FF(n) == [i \in 1..n |-> 255]

NVals(n) ==
  CASE n = "tinyint" -> <<IV(0, << >>), IV(1, <<1>>), IV(0, <<127>>), IV(1, <<128>>)>>
    [] n = "smallint" -> <<IV(0, <<1>>), IV(1, <<1>>), IV(0, <<255, 127>>), IV(1, <<0, 128>>), IV(0, <<0, 1>>)>>
    [] n = "int" -> <<IV(0, <<1>>), IV(1, <<1>>), IV(0, <<255, 255, 255, 127>>), IV(1, <<0, 0, 0, 128>>), IV(0, << >>), IV(0, <<0, 0, 1>>)>>
    [] n = "bigint" -> <<IV(0, <<2>>), IV(1, <<1>>), IV(0, <<255, 255, 255, 255, 255, 255, 255, 127>>), IV(1, <<0, 0, 0, 0, 0, 0, 0, 128>>), IV(0, <<0, 0, 0, 0, 1>>)>>
    [] n = "counter" -> <<IV(0, <<7>>), IV(1, <<0, 1>>)>>
    [] n = "varint" -> <<IV(0, << >>), IV(0, <<127>>), IV(0, <<128>>), IV(1, <<128>>), IV(1, <<129>>), IV(0, <<0, 0, 0, 0, 0, 0, 0, 0, 1>>),
                         IV(1, <<1, 0, 0, 0, 0, 0, 0, 0, 1>>), IV(1, <<0, 128>>), IV(0, <<255, 255>>)>>
    [] n = "date" -> <<IV(0, << >>), IV(0, <<0, 0, 0, 128>>), IV(0, <<255, 255, 255, 255>>), IV(0, <<1>>)>>
    [] n = "time" -> <<IV(0, << >>), IV(0, <<255, 255, 78, 145, 148, 78>>), IV(0, <<1>>)>>       \* 86399999999999
    [] n = "timestamp" -> <<IV(0, << >>), IV(1, <<1>>), IV(0, <<255, 255, 255, 255, 255, 255, 255, 127>>), IV(1, <<0, 0, 0, 0, 0, 0, 0, 128>>), IV(0, <<0, 16, 165, 212, 232>>)>>
    [] n = "boolean" -> <<[k |-> "b", v |-> 1], [k |-> "b", v |-> 0]>>
    [] n = "float" -> <<Bits(<<63, 128, 0, 0>>), Bits(<<127, 192, 0, 1>>), Bits(<<128, 0, 0, 0>>), Bits(<<255, 128, 0, 0>>)>>
    [] n = "double" -> <<Bits(<<63, 240, 0, 0, 0, 0, 0, 0>>), Bits(<<127, 248, 0, 0, 0, 0, 0, 7>>), Bits(<<128, 0, 0, 0, 0, 0, 0, 0>>)>>
    [] n = "text" -> <<Txt(<<97>>), Txt(<<195, 169, 240, 159, 152, 128>>), Txt(<< >>), Txt(<<98, 99>>)>>
    [] n = "ascii" -> <<Txt(<<97, 122>>), Txt(<< >>)>>
    [] n = "blob" -> <<Raw(<<255, 0, 128>>), Raw(<< >>), Raw(<<0>>)>>
    [] n = "uuid" -> <<Raw(<<0, 17, 34, 51, 68, 85, 70, 119, 136, 153, 170, 187, 204, 221, 238, 255>>), Raw([i \in 1..16 |-> 0])>>
    [] n = "timeuuid" -> <<Raw(<<0, 17, 34, 51, 68, 85, 22, 119, 136, 153, 170, 187, 204, 221, 238, 255>>)>>
    [] n = "inet" -> <<Raw(<<127, 0, 0, 1>>), Raw(<<32, 1, 13, 184, 0, 0, 0, 0, 0, 0, 0, 0, 0, 0, 0, 1>>)>>
    [] n = "decimal" -> <<[k |-> "dec", scale |-> I(0, << >>), int |-> I(0, << >>)], [k |-> "dec", scale |-> I(1, <<3>>), int |-> I(1, <<129>>)],
                          [k |-> "dec", scale |-> I(0, <<255, 255, 255, 127>>), int |-> I(0, <<0, 0, 0, 0, 0, 0, 0, 0, 0, 1>>)]>>
    [] n = "duration" -> <<[k |-> "dur", months |-> I(0, << >>), days |-> I(0, << >>), nanos |-> I(0, << >>)],
                           [k |-> "dur", months |-> I(0, <<1>>), days |-> I(1, <<2>>), nanos |-> I(0, <<0, 0, 1>>)],
                           [k |-> "dur", months |-> I(0, <<255, 255, 255, 127>>), days |-> I(1, <<0, 0, 0, 128>>), nanos |-> I(1, <<0, 0, 0, 0, 0, 0, 0, 128>>)],
                           [k |-> "dur", months |-> I(0, <<64>>), days |-> I(1, <<64>>), nanos |-> I(0, <<255, 255, 255, 255, 255, 255, 255, 127>>)]>>
    [] OTHER -> << >>

Natives == {"ascii", "bigint", "blob", "boolean", "counter", "date", "decimal", "double", "duration", "float", "inet", "int",
            "smallint", "text", "time", "timestamp", "timeuuid", "tinyint", "uuid", "varint"}
ElemN == {"int", "text", "bigint", "boolean", "varint", "duration", "uuid"}

ZeroLen(T) == IF T.k = "native" /\ T.n \in {"text", "ascii"} THEN <<Txt(<< >>)>>
              ELSE IF T.k = "native" /\ T.n = "blob" THEN <<Raw(<< >>)>> ELSE << >>
RECURSIVE Vals(_)
SeqSet(s) == {s[i] : i \in 1..Len(s)}
Two(T) == LET vs == Vals(T) IN IF Len(vs) >= 2 THEN <<vs[1], vs[2]>> ELSE vs
Vals(T) ==
  CASE T.k = "native" -> NVals(T.n)
    [] T.k \in {"list", "set"} ->
         LET e == Two(T.e) IN
         << [k |-> "seq", vs |-> <<e[1], e[Len(e)]>>], [k |-> "seq", vs |-> << >>], [k |-> "seq", vs |-> <<e[1]>>],
            [k |-> "seq", vs |-> <<e[Len(e)], Null0, e[1]>>] >>
    [] T.k = "map" ->
         LET a == Two(T.a)  b == Two(T.b) IN
         << [k |-> "map", kvs |-> << <<a[1], b[1]>>, <<a[Len(a)], b[Len(b)]>> >>], [k |-> "map", kvs |-> << >>],
            [k |-> "map", kvs |-> << <<a[1], Null0>> >>] >>
    [] T.k = "tuple" ->
         LET full == [i \in 1..Len(T.ts) |-> Two(T.ts[i])[1]]
             alt == [i \in 1..Len(T.ts) |-> IF i % 2 = 0 THEN Null0 ELSE Two(T.ts[i])[Len(Two(T.ts[i]))]] IN
         << [k |-> "tup", vs |-> full], [k |-> "tup", vs |-> alt], [k |-> "tup", vs |-> SubSeq(full, 1, Len(full) - 1)],
            [k |-> "tup", vs |-> << >>] >>
    [] T.k = "udt" ->
         LET full == [i \in 1..Len(T.fs) |-> Two(T.fs[i].t)[1]]
             alt == [i \in 1..Len(T.fs) |-> IF i % 2 = 1 THEN Null0 ELSE Two(T.fs[i].t)[Len(Two(T.fs[i].t))]] IN
         << [k |-> "udt", vs |-> full], [k |-> "udt", vs |-> alt], [k |-> "udt", vs |-> SubSeq(full, 1, Len(full) - 1)] >>
    [] T.k = "vector" ->
         LET e == Two(T.e)
             z == ZeroLen(T.e) IN      \* a zero-length element (empty string / blob) in first and in last position
         << [k |-> "seq", vs |-> [i \in 1..T.d |-> e[1]]], [k |-> "seq", vs |-> [i \in 1..T.d |-> IF i % 2 = 1 THEN e[Len(e)] ELSE e[1]]] >>
         \o (IF Len(z) = 0 THEN << >>
             ELSE << [k |-> "seq", vs |-> [i \in 1..T.d |-> IF i = T.d THEN z[1] ELSE e[1]]],
                     [k |-> "seq", vs |-> [i \in 1..T.d |-> IF i = 1 THEN z[1] ELSE e[1]]] >>)

L(e) == [k |-> "list", e |-> e]
St(e) == [k |-> "set", e |-> e]
M(a, b) == [k |-> "map", a |-> a, b |-> b]
Tp(ts) == [k |-> "tuple", ts |-> ts]
U(fs) == [k |-> "udt", fs |-> fs]
F(n, t) == [n |-> n, t |-> t]
V(e, d) == [k |-> "vector", e |-> e, d |-> d]

Depth1 == {NT(n) : n \in Natives}
  \cup {L(NT(n)) : n \in ElemN} \cup {St(NT(n)) : n \in ElemN}
  \cup {M(NT(a), NT(b)) : a \in {"int", "text"}, b \in ElemN}
  \cup {Tp(<<NT("int"), NT("text")>>), Tp(<<NT("varint"), NT("boolean"), NT("bigint")>>), Tp(<<NT("duration")>>)}
  \cup {U(<<F("a", NT("int")), F("b", NT("text")), F("c", NT(n))>>) : n \in {"bigint", "varint", "uuid"}}
  \cup {V(NT("int"), 3), V(NT("text"), 2), V(NT("bigint"), 1), V(NT("boolean"), 2), V(NT("varint"), 2), V(NT("uuid"), 2), V(NT("duration"), 1), V(NT("smallint"), 2), V(NT("blob"), 2), V(NT("ascii"), 3)}
Nested == {L(L(NT("int"))), M(NT("text"), L(NT("int"))), L(Tp(<<NT("int"), NT("text")>>)), Tp(<<L(NT("int")), M(NT("int"), NT("text"))>>),
           U(<<F("x", L(NT("text"))), F("y", Tp(<<NT("int"), NT("boolean")>>))>>), V(V(NT("int"), 2), 2), V(L(NT("int")), 2),
           L(U(<<F("a", NT("int")), F("b", NT("text"))>>)), St(Tp(<<NT("int"), NT("text")>>)), M(NT("int"), U(<<F("a", NT("varint"))>>)),
           L(V(NT("text"), 2)), M(NT("text"), M(NT("int"), L(NT("bigint")))), L(L(L(NT("text")))),
           Tp(<<Tp(<<NT("int"), Tp(<<NT("text"), NT("boolean")>>)>>), NT("int")>>), V(Tp(<<NT("int"), NT("text")>>), 2)}
Types == IF Depth2 THEN Depth1 \cup Nested ELSE Depth1

\* the special zero-length value exists for types whose natural encoding is never empty (for text / ascii / blob a
\* zero-length cell simply is the empty string); counters and durations do not have it
EmptyOk(T) == T.k = "native" /\ T.n \notin {"counter", "duration", "text", "ascii", "blob"}
VARIABLE c
Init == \E T \in Types :
          \/ \E i \in 1..Len(Vals(T)) : c = [t |-> T, v |-> Vals(T)[i]]
          \/ c = [t |-> T, v |-> Null0]
          \/ c = [t |-> T, v |-> [k |-> "unset"]]
          \/ (EmptyOk(T) /\ c = [t |-> T, v |-> [k |-> "empty"]])
Next == UNCHANGED c
Spec == Init /\ [][Next]_c
\* sanity of the reference on every generated vector: the length prefix is the body length
PrefixOK == LET cell == Cell(c.t, c.v) IN
   c.v.k \notin {"null", "unset"} => (Len(cell) >= 4 /\ cell[1] * 16777216 + cell[2] * 65536 + cell[3] * 256 + cell[4] = Len(cell) - 4)
Emit == PrintT(<<"VEC", ToJson(c)>>)
=============================================================================
