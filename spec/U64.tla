--------------------------------- MODULE U64 ---------------------------------
(***************************************************************************)
(* 64-bit unsigned arithmetic on eight base-256 limbs, little-endian       *)
(* (b[1] is the least significant byte).  TLC integers are 32-bit; every   *)
(* intermediate value here stays below 2^31.                               *)
(*                                                                         *)
(* Evaluation note: TLC passes operator arguments by name.  Every public   *)
(* operator therefore first binds its arguments to VALUES (S1/S2: a bound  *)
(* variable of a set constructor is a value) and builds its result as an   *)
(* explicit tuple, so that cost stays linear in the size of an expression. *)
(***************************************************************************)
EXTENDS Naturals, Sequences, Bitwise

S1(v, F(_)) == CHOOSE r \in {F(x) : x \in {v}} : TRUE
S2(v, w, F(_, _)) == CHOOSE r \in {F(x, y) : x \in {v}, y \in {w}} : TRUE
S3(u, v, w, F(_, _, _)) == CHOOSE r \in {F(x, y, z) : x \in {u}, y \in {v}, z \in {w}} : TRUE
T8(f(_)) == <<f(1), f(2), f(3), f(4), f(5), f(6), f(7), f(8)>>

Zero == <<0, 0, 0, 0, 0, 0, 0, 0>>
IsU64(a) == Len(a) = 8 /\ \A i \in 1..8 : a[i] \in 0..255

\* little-endian limbs of a small natural (< 2^31)
FromNat(n) == S1(n, LAMBDA m : <<m % 256, (m \div 256) % 256, (m \div 65536) % 256, (m \div 16777216) % 256, 0, 0, 0, 0>>)

\* (a + b) mod 2^64
AddV(a, b) ==
  LET c1 == (a[1] + b[1]) \div 256
      c2 == (a[2] + b[2] + c1) \div 256
      c3 == (a[3] + b[3] + c2) \div 256
      c4 == (a[4] + b[4] + c3) \div 256
      c5 == (a[5] + b[5] + c4) \div 256
      c6 == (a[6] + b[6] + c5) \div 256
      c7 == (a[7] + b[7] + c6) \div 256
  IN <<(a[1] + b[1]) % 256, (a[2] + b[2] + c1) % 256, (a[3] + b[3] + c2) % 256, (a[4] + b[4] + c3) % 256,
       (a[5] + b[5] + c4) % 256, (a[6] + b[6] + c5) % 256, (a[7] + b[7] + c6) % 256, (a[8] + b[8] + c7) % 256>>
Add(a, b) == S2(a, b, AddV)

\* (a * b) mod 2^64 : column sums, carries propagated strictly
ColV(a, b, k) == LET S[i \in 0..k] == IF i = 0 THEN 0 ELSE S[i - 1] + a[i] * b[k + 1 - i] IN S[k]
\* cols is the tuple of the 8 (or 10) column sums; digits with carry chain
CarryDigits(cols) ==
  LET step(acc, k) == \* acc = <<digits, carry>>
        LET t == cols[k] + acc[2] IN <<Append(acc[1], t % 256), t \div 256>>
      R[k \in 0..Len(cols)] == IF k = 0 THEN << << >>, 0 >> ELSE S1(R[k - 1], LAMBDA acc : step(acc, k))
  IN R[Len(cols)][1]
MulV(a, b) == S1(<<ColV(a, b, 1), ColV(a, b, 2), ColV(a, b, 3), ColV(a, b, 4), ColV(a, b, 5), ColV(a, b, 6), ColV(a, b, 7), ColV(a, b, 8)>>,
                 CarryDigits)
Mul(a, b) == S2(a, b, MulV)

BXorV(a, b) == <<a[1] ^^ b[1], a[2] ^^ b[2], a[3] ^^ b[3], a[4] ^^ b[4], a[5] ^^ b[5], a[6] ^^ b[6], a[7] ^^ b[7], a[8] ^^ b[8]>>
BXor(a, b) == S2(a, b, BXorV)

Pow2(s) == CASE s = 0 -> 1 [] s = 1 -> 2 [] s = 2 -> 4 [] s = 3 -> 8 [] s = 4 -> 16 [] s = 5 -> 32 [] s = 6 -> 64 [] s = 7 -> 128 [] OTHER -> 256

\* byte i (1-based) of a, 0 outside
At(a, i) == IF i >= 1 /\ i <= 8 THEN a[i] ELSE 0

\* logical shift left / right by r bits, 0 <= r <= 63
ShlV(a, r) == LET q == r \div 8  s == r % 8
                  f(i) == ((At(a, i - q) * Pow2(s)) % 256) + (At(a, i - q - 1) \div Pow2(8 - s)) IN T8(f)
ShrV(a, r) == LET q == r \div 8  s == r % 8
                  f(i) == (At(a, i + q) \div Pow2(s)) + ((At(a, i + q + 1) * Pow2(8 - s)) % 256) IN T8(f)
Shl(a, r) == S2(a, r, ShlV)
Shr(a, r) == S2(a, r, ShrV)
RotlV(a, r) == AddV(ShlV(a, r), ShrV(a, 64 - r))
Rotl(a, r) == S2(a, r, RotlV)

\* two's complement: a is negative as i64
Neg(a) == a[8] >= 128
\* bias by 2^63 (flip the top bit)
Bias(a) == S1(a, LAMBDA x : <<x[1], x[2], x[3], x[4], x[5], x[6], x[7], (x[8] + 128) % 256>>)

\* high 16 bits (beyond bit 63) of a * n for n < 65536: the ScyllaDB shard computation
MulHi16V(a, n) ==
  LET nb == <<n % 256, n \div 256>>
      col(k) == (IF k <= 8 THEN a[k] * nb[1] ELSE 0) + (IF k >= 2 /\ k <= 9 THEN a[k - 1] * nb[2] ELSE 0)
      d == CarryDigits(<<col(1), col(2), col(3), col(4), col(5), col(6), col(7), col(8), col(9), col(10)>>)
  IN d[9] + 256 * d[10]
MulHi16(a, n) == S2(a, n, MulHi16V)
=============================================================================
