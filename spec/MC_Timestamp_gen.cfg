SPECIFICATION Spec
CONSTANTS
  Threads = {1, 2}
  Calls = 2
  MaxClock = 2
  CasChecksSeen = TRUE
INVARIANTS Unique PerThreadIncreasing Emit
CHECK_DEADLOCK FALSE
