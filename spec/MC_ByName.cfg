SPECIFICATION Spec
CONSTANTS Six = FALSE
INVARIANTS Emit RoundTrip
CHECK_DEADLOCK FALSE
